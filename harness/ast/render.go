package ast

import (
	"fmt"
	"strings"
)

// Token kinds.
type TK int

const (
	TWord  TK = iota // identifier or keyword
	TNum             // numeric literal
	TStr             // string literal (Text is the raw content; quotes are chosen by the layout)
	TRegex           // regex literal including its slashes
	TPunct           // operator or punctuation
	TSep             // statement separator: newline or ';'
	TRaw             // verbatim text (fault kits)
)

type Tok struct {
	Text      string
	Kind      TK
	NoNLAfter bool // a newline directly after this token would change the meaning
	NoSemi    bool // (TSep) must be a newline, never ';'
	HardNL    bool // (TSep) must contain a newline (';' not allowed): rule separators
}

// Paren modes.
type Mode int

const (
	Full    Mode = iota // every compound operand parenthesised
	Minimal             // only what the precedence table requires
	// FullTargets is Full and, in addition, member and index expressions that are the target
	// of an assignment or of ++ / -- are parenthesised ((o.a) = 5, (a[0])++), except where
	// the target is the first thing of a statement (a line must not start with a parenthesis)
	FullTargets
)

func (rr *renderer) full() bool { return rr.mode == Full || rr.mode == FullTargets }

// target renders the target of an assignment or of ++ / --.
func (rr *renderer) target(n *Node, atStart bool) {
	if rr.mode == FullTargets && !atStart && (n.K == "mem" || n.K == "idx") {
		rr.p("(")
		rr.expr(n, 7)
		rr.p(")")
		return
	}
	rr.base(n)
}

type Rendering struct {
	Toks  []Tok
	First map[*Node]int // index of the first token of a node
	Last  map[*Node]int // index of the last token of a node
}

type renderer struct {
	mode      Mode
	stmtStart bool // the expression being rendered starts a statement (cleared at the first token)
	r    *Rendering
}

// Render turns a tree (program, statement or expression) into tokens.
func Render(n *Node, mode Mode) *Rendering {
	rr := &renderer{mode: mode, r: &Rendering{First: map[*Node]int{}, Last: map[*Node]int{}}}
	switch {
	case n.K == "prog":
		rr.prog(n)
	case n.IsStmt():
		rr.stmt(n)
	default:
		rr.expr(n, 0)
	}
	return rr.r
}

func (rr *renderer) emit(kind TK, text string) {
	rr.r.Toks = append(rr.r.Toks, Tok{Text: text, Kind: kind})
	rr.stmtStart = false
}
func (rr *renderer) p(text string) { rr.emit(TPunct, text) }
func (rr *renderer) w(text string) { rr.emit(TWord, text) }
func (rr *renderer) sep(noSemi bool) {
	rr.r.Toks = append(rr.r.Toks, Tok{Kind: TSep, NoSemi: noSemi})
}
func (rr *renderer) hardNL() {
	rr.r.Toks = append(rr.r.Toks, Tok{Kind: TSep, NoSemi: true, HardNL: true})
}
func (rr *renderer) lastTok() *Tok { return &rr.r.Toks[len(rr.r.Toks)-1] }

func (rr *renderer) open(n *Node) int { return len(rr.r.Toks) }
func (rr *renderer) close(n *Node, start int) {
	if len(rr.r.Toks) > start {
		rr.r.First[n] = start
		rr.r.Last[n] = len(rr.r.Toks) - 1
	}
}

// Level is the binding strength of the node's top operator (table 3.9); atoms are 8.
func Level(n *Node) int {
	switch n.K {
	case "mem", "idx", "call":
		return 7
	case "un":
		return 6
	case "bin":
		return BinLevel(string(n.S))
	case "is":
		return 3
	case "asg":
		return 1
	case "pre", "post":
		return 0
	}
	return 8
}

func BinLevel(op string) int {
	switch op {
	case "*", "/", "%":
		return 5
	case "+", "-":
		return 4
	case "==", "!=", "<", "<=", ">", ">=", "~", "!~":
		return 3
	case "&&", "||":
		return 2
	}
	panic("unknown binary operator " + op)
}

// operand renders a child that sits in an operator position requiring at
// least level req.
func (rr *renderer) operand(n *Node, req int) {
	need := Level(n) < req
	if rr.full() && Level(n) < 7 {
		need = true
	}
	if need {
		rr.p("(")
		rr.expr(n, 0)
		rr.p(")")
		return
	}
	rr.expr(n, req)
}

// base renders the base of a postfix operator (member, index, call).
func (rr *renderer) base(n *Node) {
	// (a numeric literal needs no parentheses: it never absorbs the member operator)
	if (n.K == "num" && rr.full()) || n.K == "match" || n.K == "regex" || Level(n) < 7 {
		rr.p("(")
		rr.expr(n, 0)
		rr.p(")")
		return
	}
	rr.expr(n, 7)
}

func (rr *renderer) list(items []*Node) {
	for i, it := range items {
		if i > 0 {
			rr.p(",")
		}
		rr.expr(it, 0)
	}
}

func (rr *renderer) expr(n *Node, req int) {
	start := rr.open(n)
	defer func() { rr.close(n, start) }()
	switch n.K {
	case "num":
		rr.emit(TNum, string(n.S))
	case "str":
		rr.emit(TStr, string(n.S))
	case "regex":
		rr.emit(TRegex, "/"+string(n.S)+"/")
	case "true", "false", "null":
		rr.w(n.K)
	case "id":
		rr.w(string(n.S))
	case "dollar":
		rr.w("$")
	case "raw":
		rr.emit(TRaw, string(n.S))
	case "paren":
		rr.p("(")
		rr.expr(n.C[0], 0)
		rr.p(")")
	case "arr":
		rr.p("[")
		rr.list(n.C)
		rr.p("]")
	case "obj":
		rr.p("{")
		for i, kv := range n.C {
			if i > 0 {
				rr.p(",")
			}
			if kv.T == "str" {
				rr.emit(TStr, string(kv.S))
			} else {
				rr.w(string(kv.S))
			}
			rr.p(":")
			rr.expr(kv.C[0], 0)
		}
		rr.p("}")
	case "un":
		rr.p(string(n.S))
		rr.operand(n.C[0], 6)
	case "pre":
		rr.p(string(n.S))
		rr.target(n.C[0], false)
	case "post":
		rr.target(n.C[0], rr.stmtStart)
		rr.p(string(n.S))
	case "bin":
		l := BinLevel(string(n.S))
		rr.operand(n.C[0], l)
		rr.p(string(n.S))
		rr.operand(n.C[1], l+1)
	case "is":
		rr.operand(n.C[0], 3)
		rr.w("is")
		rr.w(string(n.S))
	case "asg":
		if rr.mode == FullTargets && !rr.stmtStart && (n.C[0].K == "mem" || n.C[0].K == "idx") {
			rr.target(n.C[0], false)
		} else {
			rr.expr(n.C[0], 7)
		}
		rr.p(string(n.S))
		v := n.C[1]
		if rr.full() && Level(v) < 7 && v.K != "asg" {
			rr.p("(")
			rr.expr(v, 0)
			rr.p(")")
		} else if Level(v) < 1 {
			rr.p("(")
			rr.expr(v, 0)
			rr.p(")")
		} else {
			rr.expr(v, 1)
		}
	case "mem":
		rr.base(n.C[0])
		rr.p(".")
		rr.w(string(n.S))
	case "idx":
		rr.base(n.C[0])
		rr.p("[")
		rr.expr(n.C[1], 0)
		rr.p("]")
	case "call":
		rr.base(n.C[0])
		rr.p("(")
		rr.list(n.C[1:])
		rr.p(")")
	case "match":
		rr.w("match")
		rr.p("(")
		rr.expr(n.C[0], 0)
		rr.p(")")
		rr.p("{")
		for i, cs := range n.C[1:] {
			if i > 0 {
				rr.p(",")
			}
			cstart := rr.open(cs)
			np := cs.N
			rr.list(cs.C[:np])
			rr.p("=>")
			body := cs.C[np]
			if body.K == "block" {
				rr.stmt(body)
			} else {
				// an expression body that would start with '{' must be
				// parenthesised or it is read as a block
				at := len(rr.r.Toks)
				rr.expr(body, 0)
				if rr.r.Toks[at].Text == "{" && rr.r.Toks[at].Kind == TPunct {
					rr.r.Toks = rr.r.Toks[:at]
					rr.p("(")
					rr.expr(body, 0)
					rr.p(")")
				}
			}
			rr.close(cs, cstart)
		}
		rr.p("}")
	default:
		panic(fmt.Sprintf("render: not an expression: %q", n.K))
	}
}

func (rr *renderer) stmt(n *Node) {
	start := rr.open(n)
	defer func() { rr.close(n, start) }()
	switch n.K {
	case "print":
		rr.w("print")
		rr.lastTok().NoNLAfter = true
		for i, a := range n.C {
			if i > 0 {
				rr.p(",")
				rr.lastTok().NoNLAfter = true
			}
			rr.expr(a, 0)
		}
	case "expr":
		rr.stmtStart = true
		rr.expr(n.C[0], 0)
		rr.stmtStart = false
	case "return":
		rr.w("return")
		rr.lastTok().NoNLAfter = true
		if len(n.C) > 0 {
			rr.expr(n.C[0], 0)
		}
	case "break", "continue", "next", "exit":
		rr.w(n.K)
	case "block":
		rr.p("{")
		for _, s := range n.C {
			rr.stmt(s)
			lt := rr.lastTok()
			rr.sep(lt.Kind == TPunct && lt.Text == "}")
		}
		rr.p("}")
	case "if":
		rr.w("if")
		rr.p("(")
		rr.expr(n.C[0], 0)
		rr.p(")")
		rr.stmt(n.C[1])
		if len(n.C) > 2 && n.C[2] != nil {
			if needsSepBeforeElse(n.C[1]) {
				rr.sep(false)
			}
			rr.w("else")
			rr.stmt(n.C[2])
		}
	case "while":
		rr.w("while")
		rr.p("(")
		rr.expr(n.C[0], 0)
		rr.p(")")
		rr.stmt(n.C[1])
	case "for":
		rr.w("for")
		rr.p("(")
		rr.expr(n.C[0], 0)
		rr.p(";")
		rr.expr(n.C[1], 0)
		rr.p(";")
		rr.expr(n.C[2], 0)
		rr.p(")")
		rr.stmt(n.C[3])
	case "forin":
		rr.w("for")
		rr.p("(")
		rr.w(string(n.S))
		if n.T != "" {
			rr.p(",")
			rr.w(n.T)
		}
		rr.w("in")
		rr.expr(n.C[0], 0)
		rr.p(")")
		rr.stmt(n.C[1])
	default:
		panic(fmt.Sprintf("render: not a statement: %q", n.K))
	}
}

// needsSepBeforeElse: a bare print / bare return directly before `else` would
// take `else` as the start of an argument; it needs a newline or ';'.
func needsSepBeforeElse(s *Node) bool {
	switch s.K {
	case "print", "return":
		return len(s.C) == 0
	case "if":
		if len(s.C) > 2 && s.C[2] != nil {
			return needsSepBeforeElse(s.C[2])
		}
		return needsSepBeforeElse(s.C[1])
	case "while":
		return needsSepBeforeElse(s.C[1])
	case "for":
		return needsSepBeforeElse(s.C[3])
	case "forin":
		return needsSepBeforeElse(s.C[1])
	}
	return false
}

func (rr *renderer) prog(n *Node) {
	for _, it := range n.C {
		start := rr.open(it)
		switch it.K {
		case "func":
			rr.w("function")
			rr.w(string(it.S))
			rr.p("(")
			for i, prm := range it.P {
				if i > 0 {
					rr.p(",")
				}
				rr.w(prm)
			}
			rr.p(")")
			rr.stmt(it.C[0])
		case "rule":
			switch string(it.S) {
			case "BEGIN", "END", "BEGINFILE", "ENDFILE":
				rr.w(string(it.S))
			default:
				if it.C[0] != nil {
					rr.expr(it.C[0], 0)
				}
			}
			if it.C[1] != nil {
				rr.stmt(it.C[1])
			}
		default:
			panic("render: bad program item " + it.K)
		}
		rr.close(it, start)
		rr.hardNL()
	}
}

// ---- layout -------------------------------------------------------------------------

// Layout decides the text between tokens, the quote of every string literal and
// the spelling of every statement separator.
type Layout interface {
	// Gap returns the text to put between token i-1 and token i (i >= 1); neither
	// is a TSep. The default is a single space.
	Gap(toks []Tok, i int) string
	// Sep returns the spelling of separator token i.
	Sep(toks []Tok, i int) string
	// Quote returns the quote character for string token i.
	Quote(toks []Tok, i int) byte
}

type Canonical struct{}

func (Canonical) Gap([]Tok, int) string { return " " }
func (Canonical) Sep([]Tok, int) string { return "\n" }
func (Canonical) Quote(toks []Tok, i int) byte {
	return DefaultQuote(toks[i].Text)
}

func DefaultQuote(raw string) byte {
	if strings.IndexByte(raw, '"') >= 0 {
		return '\''
	}
	return '"'
}

type Text struct {
	Src   string
	Start []int // byte offset of each token (separators included)
	End   []int
}

// Join lays the tokens out as program text.
func (r *Rendering) Join(lay Layout) *Text {
	var sb strings.Builder
	t := &Text{Start: make([]int, len(r.Toks)), End: make([]int, len(r.Toks))}
	prevReal := false
	for i, tk := range r.Toks {
		if tk.Kind == TSep {
			t.Start[i] = sb.Len()
			sb.WriteString(lay.Sep(r.Toks, i))
			t.End[i] = sb.Len()
			prevReal = false
			continue
		}
		if prevReal {
			sb.WriteString(lay.Gap(r.Toks, i))
		}
		t.Start[i] = sb.Len()
		if tk.Kind == TStr {
			q := lay.Quote(r.Toks, i)
			sb.WriteByte(q)
			sb.WriteString(tk.Text)
			sb.WriteByte(q)
		} else {
			sb.WriteString(tk.Text)
		}
		t.End[i] = sb.Len()
		prevReal = true
	}
	t.Src = sb.String()
	return t
}

// Span returns the byte span [start, end) of a node in the laid-out text.
func (r *Rendering) Span(t *Text, n *Node) (int, int, bool) {
	f, ok := r.First[n]
	if !ok {
		return 0, 0, false
	}
	return t.Start[f], t.End[r.Last[n]], true
}

// Source is the canonical text of a tree with full parenthesisation.
func Source(n *Node) string {
	return Render(n, Full).Join(Canonical{}).Src
}

// SourceMin is the canonical text with minimal parenthesisation.
func SourceMin(n *Node) string {
	return Render(n, Minimal).Join(Canonical{}).Src
}
