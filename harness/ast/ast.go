// Package ast is the harness's own abstract syntax for jqawk programs. It is
// deliberately independent of jqawk's lexer and parser: "this text means this
// tree" is a statement the implementation has to live up to.
//
// A single uniform node type is used so that trees serialise to JSON (replay
// files), hash, and can be traversed generically (slot selection, mutation).
package ast

import (
	"encoding/base64"
	"encoding/json"
	"unicode/utf8"
)

// BS is a byte string that survives JSON even when it is not valid UTF-8.
type BS string

type bsWire struct {
	B64 string `json:"b64"`
}

func (b BS) MarshalJSON() ([]byte, error) {
	if utf8.ValidString(string(b)) {
		return json.Marshal(string(b))
	}
	return json.Marshal(bsWire{base64.StdEncoding.EncodeToString([]byte(b))})
}

func (b *BS) UnmarshalJSON(data []byte) error {
	if len(data) > 0 && data[0] == '{' {
		var w bsWire
		if err := json.Unmarshal(data, &w); err != nil {
			return err
		}
		raw, err := base64.StdEncoding.DecodeString(w.B64)
		if err != nil {
			return err
		}
		*b = BS(raw)
		return nil
	}
	var s string
	if err := json.Unmarshal(data, &s); err != nil {
		return err
	}
	*b = BS(s)
	return nil
}

// Node kinds (field K).
//
// Expressions:
//
//	num    S = spelling of the (non-negative) literal, e.g. "7", "007", "1.50"
//	str    S = raw source text between the quotes (escapes NOT yet processed)
//	true false null
//	regex  S = source between the slashes
//	id     S = name (may be "$index", "$file", "$nope")
//	dollar
//	arr    C = items
//	obj    C = kv nodes (kv: S = key, T = "id" | "str", C[0] = value)
//	un     S = "!" | "-" | "+", C[0]
//	pre    S = "++" | "--", C[0]        post likewise
//	bin    S = operator, C[0], C[1]     (+ - * / % == != < <= > >= && || ~ !~)
//	is     S = type name, C[0]
//	asg    S = "=" | "+=" | "-=" | "*=" | "/=", C[0] target, C[1] value
//	mem    S = member name, C[0] base
//	idx    C[0] base, C[1] index
//	call   C[0] callee, C[1:] arguments
//	match  C[0] subject, C[1:] case nodes (case: N = number of patterns,
//	       C[:N] patterns, C[N] body: an expression or a block statement)
//	paren  C[0]  (explicit, semantically transparent parentheses)
//	raw    S = verbatim token text (used only by fault kits / mutation)
//
// Statements:
//
//	print C = args;  expr C[0];  if C[0] cond C[1] then [C[2] else]
//	while C[0] C[1]; for C[0] init C[1] cond C[2] post C[3] body
//	forin S = var, T = index var or "", C[0] iterable, C[1] body
//	block C = statements; break continue next exit; return [C[0]]
//
// Program:
//
//	prog  C = items: rule (S = BEGIN|END|BEGINFILE|ENDFILE|pattern,
//	      C[0] = pattern or nil, C[1] = body block or nil) and
//	      func (S = name, P = parameters, C[0] = body block)
type Node struct {
	K  string   `json:"k"`
	S  BS       `json:"s,omitempty"`
	T  string   `json:"t,omitempty"`
	N  int      `json:"n,omitempty"`
	P  []string `json:"p,omitempty"`
	C  []*Node  `json:"c,omitempty"`
	ID int      `json:"id,omitempty"`
}

func N(k string, c ...*Node) *Node           { return &Node{K: k, C: c} }
func NS(k, s string, c ...*Node) *Node       { return &Node{K: k, S: BS(s), C: c} }
func Num(spelling string) *Node              { return &Node{K: "num", S: BS(spelling)} }
func Str(raw string) *Node                   { return &Node{K: "str", S: BS(raw)} }
func Regex(src string) *Node                 { return &Node{K: "regex", S: BS(src)} }
func Id(name string) *Node                   { return &Node{K: "id", S: BS(name)} }
func Dollar() *Node                          { return &Node{K: "dollar"} }
func True() *Node                            { return &Node{K: "true"} }
func False() *Node                           { return &Node{K: "false"} }
func Null() *Node                            { return &Node{K: "null"} }
func Arr(items ...*Node) *Node               { return &Node{K: "arr", C: items} }
func Obj(kvs ...*Node) *Node                 { return &Node{K: "obj", C: kvs} }
func KV(key string, v *Node) *Node           { return &Node{K: "kv", S: BS(key), T: "id", C: []*Node{v}} }
func KVs(key string, v *Node) *Node          { return &Node{K: "kv", S: BS(key), T: "str", C: []*Node{v}} }
func Un(op string, a *Node) *Node            { return &Node{K: "un", S: BS(op), C: []*Node{a}} }
func Pre(op string, a *Node) *Node           { return &Node{K: "pre", S: BS(op), C: []*Node{a}} }
func Post(op string, a *Node) *Node          { return &Node{K: "post", S: BS(op), C: []*Node{a}} }
func Bin(op string, a, b *Node) *Node        { return &Node{K: "bin", S: BS(op), C: []*Node{a, b}} }
func Is(a *Node, typ string) *Node           { return &Node{K: "is", S: BS(typ), C: []*Node{a}} }
func Asg(op string, target, v *Node) *Node   { return &Node{K: "asg", S: BS(op), C: []*Node{target, v}} }
func Set(target, v *Node) *Node              { return Asg("=", target, v) }
func Mem(base *Node, name string) *Node      { return &Node{K: "mem", S: BS(name), C: []*Node{base}} }
func Idx(base, i *Node) *Node                { return &Node{K: "idx", C: []*Node{base, i}} }
func Call(f *Node, args ...*Node) *Node      { return &Node{K: "call", C: append([]*Node{f}, args...)} }
func Method(recv *Node, name string, args ...*Node) *Node {
	return Call(Mem(recv, name), args...)
}
func Paren(a *Node) *Node { return &Node{K: "paren", C: []*Node{a}} }
func Raw(text string) *Node { return &Node{K: "raw", S: BS(text)} }

// Match builds a match expression; cases are built with Case.
func Match(subject *Node, cases ...*Node) *Node {
	return &Node{K: "match", C: append([]*Node{subject}, cases...)}
}

// Case builds one case: patterns then body (expression or block).
func Case(body *Node, pats ...*Node) *Node {
	return &Node{K: "case", N: len(pats), C: append(append([]*Node{}, pats...), body)}
}

func Print(args ...*Node) *Node        { return &Node{K: "print", C: args} }
func ExprS(e *Node) *Node              { return &Node{K: "expr", C: []*Node{e}} }
func Block(stmts ...*Node) *Node       { return &Node{K: "block", C: stmts} }
func If(c, then *Node) *Node           { return &Node{K: "if", C: []*Node{c, then}} }
func IfElse(c, then, els *Node) *Node  { return &Node{K: "if", C: []*Node{c, then, els}} }
func While(c, body *Node) *Node        { return &Node{K: "while", C: []*Node{c, body}} }
func For(i, c, p, body *Node) *Node    { return &Node{K: "for", C: []*Node{i, c, p, body}} }
func ForIn(v, iv string, it, body *Node) *Node {
	return &Node{K: "forin", S: BS(v), T: iv, C: []*Node{it, body}}
}
func Break() *Node    { return &Node{K: "break"} }
func Continue() *Node { return &Node{K: "continue"} }
func Next() *Node     { return &Node{K: "next"} }
func Exit() *Node     { return &Node{K: "exit"} }
func Return(e *Node) *Node {
	if e == nil {
		return &Node{K: "return"}
	}
	return &Node{K: "return", C: []*Node{e}}
}

// Rule builds a rule. kind is BEGIN, END, BEGINFILE, ENDFILE or "pattern";
// pattern and body may be nil.
func Rule(kind string, pattern, body *Node) *Node {
	return &Node{K: "rule", S: BS(kind), C: []*Node{pattern, body}}
}
func Func(name string, params []string, body *Node) *Node {
	return &Node{K: "func", S: BS(name), P: params, C: []*Node{body}}
}
func Prog(items ...*Node) *Node { return &Node{K: "prog", C: items} }

// Clone returns a deep copy.
func (n *Node) Clone() *Node {
	if n == nil {
		return nil
	}
	c := *n
	if n.P != nil {
		c.P = append([]string{}, n.P...)
	}
	if n.C != nil {
		c.C = make([]*Node, len(n.C))
		for i, ch := range n.C {
			c.C[i] = ch.Clone()
		}
	}
	return &c
}

// Walk calls f for every node in pre-order.
func (n *Node) Walk(f func(*Node)) {
	if n == nil {
		return
	}
	f(n)
	for _, c := range n.C {
		c.Walk(f)
	}
}

// IsStmt reports whether the node is a statement.
func (n *Node) IsStmt() bool {
	switch n.K {
	case "print", "expr", "if", "while", "for", "forin", "block", "break", "continue", "next", "exit", "return":
		return true
	}
	return false
}

// Keywords of the language (cannot be used as identifiers, member names or
// unquoted object keys).
var Keywords = map[string]bool{
	"BEGIN": true, "END": true, "BEGINFILE": true, "ENDFILE": true, "print": true,
	"function": true, "return": true, "if": true, "else": true, "for": true, "while": true,
	"in": true, "match": true, "true": true, "false": true, "break": true, "continue": true,
	"next": true, "exit": true, "null": true, "is": true,
}

// OpenIf reports whether a following `else` would attach to an if inside s
// (s ends with an if that has no else).
func OpenIf(s *Node) bool {
	switch s.K {
	case "if":
		if len(s.C) > 2 && s.C[2] != nil {
			return OpenIf(s.C[2])
		}
		return true
	case "while":
		return OpenIf(s.C[1])
	case "for":
		return OpenIf(s.C[3])
	case "forin":
		return OpenIf(s.C[1])
	}
	return false
}
