package ref

import (
	"bytes"
	"fmt"
	"math"
	"strings"
	"unicode/utf8"

	"verif/harness/ast"
	"verif/harness/jsonx"
)

// File is one input: a name and the JSON values of its stream (already split;
// C03 owns the question of how a byte stream becomes values).
type File struct {
	Name   string
	Values []*jsonx.Val
}

// Excl switches the dynamic exclusions of open known findings.
type Excl struct {
	ArrayAlias bool // KF-array-alias (D11): length change on an array with a second holder
}

type Config struct {
	Prog      *ast.Node
	Selectors []*ast.Node
	Files     []File
	// Hint is the implementation's stdout. It is consulted only to learn the
	// order in which an object's keys are visited (the properties promise a
	// deterministic order, not a particular one): any order is accepted,
	// visiting a key twice / skipping one / inventing one is not.
	Hint []byte
	Excl Excl
	// MaxSteps bounds the reference run (generated programs terminate by
	// construction; this only guards against generator bugs).
	MaxSteps int
}

type Result struct {
	Class   string // "ok" | "runtime" | "unspecified" | "known"
	Reason  string // for runtime (message, informational), unspecified, known
	Out     []byte
	Root    *V // final root value (what -o would serialise), nil if none
	Events  map[string]int
	JSONUse bool // json() output was produced (exact text is not modelled)
	// Globals are the variables of the global frame at the end of the run
	// (used by generators to steer the next step of a history; never by oracles)
	Globals map[string]V
	Dollar  *V
}

type frameKind int

const (
	fGlobal frameKind = iota
	fCall
	fMatch
)

type frame struct {
	kind frameKind
	vars map[string]*Loc
}

type ctlKind int

const (
	cBreak ctlKind = iota + 1
	cContinue
	cReturn
	cNext
	cExit
)

type ctl struct {
	kind ctlKind
	v    V
}

type Interp struct {
	cfg    Config
	frames []*frame
	out    *bytes.Buffer
	steps  int
	events map[string]int

	ruleRoot   *Loc // what $ denotes
	root       *Loc // root of the last value whose BEGINFILE rules completed (what -o serialises)
	curRoot    *Loc // root of the value being processed
	rootTouched bool // the root itself was reassigned or changed length since processing of it began
	rootUnknown bool // the run ended inside BEGINFILE: which root -o would see is not specified
	indexValid bool // $index is meaningful right now
	indexEver  bool
	fileValid  bool
	ruleKind   string // kind of the rule being run ("" outside)
	callDepth  int
	jsonUse    bool
	isSelector bool
}

func (i *Interp) ev(name string) { i.events[name]++ }

func (i *Interp) step() {
	i.steps++
	if i.steps > i.cfg.MaxSteps {
		un("reference step budget exhausted")
	}
}

func newInterp(cfg Config) *Interp {
	if cfg.MaxSteps == 0 {
		cfg.MaxSteps = 2_000_000
	}
	i := &Interp{cfg: cfg, events: map[string]int{}, out: &bytes.Buffer{}}
	g := &frame{kind: fGlobal, vars: map[string]*Loc{}}
	for _, n := range []string{"printf", "json", "num"} {
		g.vars[n] = &Loc{V: V{K: KNative, Nat: &Native{Name: n}}}
	}
	if cfg.Prog != nil {
		for _, it := range cfg.Prog.C {
			if it.K == "func" {
				g.vars[string(it.S)] = &Loc{V: V{K: KFn, F: it}}
			}
		}
	}
	i.frames = []*frame{g}
	return i
}

// Run executes a program per section 4.1 and classifies the outcome.
func Run(cfg Config) (res Result) {
	i := newInterp(cfg)
	defer func() {
		res.Out = i.out.Bytes()
		res.Events = i.events
		res.Globals = map[string]V{}
		for k, l := range i.frames[0].vars {
			res.Globals[k] = l.V
		}
		if i.ruleRoot != nil {
			d := i.ruleRoot.V
			res.Dollar = &d
		}
		res.JSONUse = i.jsonUse
		if r := recover(); r != nil {
			switch s := r.(type) {
			case RuntimeErr:
				res.Class, res.Reason = "runtime", s.Msg
			case Unspec:
				res.Class, res.Reason = "unspecified", s.Reason
			case Known:
				res.Class, res.Reason = "known", s.ID
			case ctl:
				switch s.kind {
				case cExit:
					res.Class = "ok"
				default:
					res.Class, res.Reason = "unspecified", fmt.Sprintf("control signal %d escaped", s.kind)
				}
			default:
				panic(r)
			}
		}
		if i.root != nil && !i.rootUnknown && (res.Class == "ok" || res.Class == "runtime") {
			v := i.root.V
			res.Root = &v
		}
	}()
	i.driver()
	res.Class = "ok"
	return
}

func (i *Interp) rules(kind string) []*ast.Node {
	var rs []*ast.Node
	for _, it := range i.cfg.Prog.C {
		if it.K == "rule" && string(it.S) == kind {
			rs = append(rs, it)
		}
	}
	return rs
}

// runSimpleRules runs BEGIN / END / BEGINFILE / ENDFILE rules.
func (i *Interp) runSimpleRules(kind string, dollar func() *Loc) {
	for _, r := range i.rules(kind) {
		i.ruleRoot = dollar()
		i.ruleKind = kind
		i.catchNext(func() { i.exec(r.C[1]) }, func() {
			un("next outside a pattern rule")
		})
	}
	i.ruleKind = ""
}

// catchNext runs f; if a `next` signal arrives it calls onNext.
func (i *Interp) catchNext(f func(), onNext func()) {
	defer func() {
		if r := recover(); r != nil {
			if c, ok := r.(ctl); ok && c.kind == cNext {
				onNext()
				return
			}
			panic(r)
		}
	}()
	f()
}

func (i *Interp) driver() {
	i.runSimpleRules("BEGIN", func() *Loc { return &Loc{V: Null} })
	for _, f := range i.cfg.Files {
		for _, doc := range f.Values {
			i.frames[0].vars["$file"] = &Loc{V: Str(f.Name)}
			i.fileValid = true
			var roots []*Loc
			if len(i.cfg.Selectors) == 0 {
				roots = append(roots, &Loc{V: FromJSON(doc)})
			} else {
				for _, sel := range i.cfg.Selectors {
					roots = append(roots, i.runSelector(sel, doc))
				}
			}
			for _, rootLoc := range roots {
				rl := rootLoc
				i.indexValid = false
				i.curRoot = rl
				i.rootTouched = false
				i.rootUnknown = true
				i.runSimpleRules("BEGINFILE", func() *Loc { return rl })
				i.rootUnknown = false
				i.root = rl
				i.runPattern(rl)
				i.indexValid = false
				i.runSimpleRules("ENDFILE", func() *Loc {
					l := &Loc{V: rl.V}
					hold(l.V)
					return l
				})
			}
		}
	}
	i.fileValid = false
	i.indexValid = false
	i.runSimpleRules("END", func() *Loc { return &Loc{V: Null} })
}

func (i *Interp) runPattern(root *Loc) {
	prules := i.rules("pattern")
	runOne := func() {
		i.ruleKind = "pattern"
		i.catchNext(func() {
			for _, r := range prules {
				if r.C[0] != nil {
					if !truthy(i.eval(r.C[0])) {
						continue
					}
				}
				if r.C[1] == nil {
					i.printStmt(nil)
				} else {
					i.exec(r.C[1])
				}
			}
		}, func() {})
		i.ruleKind = ""
	}
	if root.V.K == KArr {
		// the element list is fixed when iteration starts
		elems := append([]*Loc{}, root.V.A.E...)
		for idx, e := range elems {
			i.ruleRoot = e
			i.frames[0].vars["$index"] = &Loc{V: Num(float64(idx))}
			i.indexValid, i.indexEver = true, true
			runOne()
		}
		return
	}
	i.ruleRoot = root
	runOne()
}

func (i *Interp) runSelector(sel *ast.Node, doc *jsonx.Val) *Loc {
	sub := newInterp(Config{MaxSteps: i.cfg.MaxSteps, Hint: i.cfg.Hint, Excl: i.cfg.Excl})
	sub.isSelector = true
	// the selector shares stdout with the program
	sub.out = i.out
	sub.events = i.events
	rootLoc := &Loc{V: FromJSON(doc)}
	sub.root, sub.ruleRoot = rootLoc, rootLoc
	var res *Loc
	func() {
		defer func() {
			i.steps += sub.steps
			i.jsonUse = i.jsonUse || sub.jsonUse
			if r := recover(); r != nil {
				if _, ok := r.(ctl); ok {
					un("control statement inside a selector")
				}
				panic(r)
			}
		}()
		p := sub.place(sel, false)
		if p.loc != nil {
			res = p.loc
		} else {
			v := p.value()
			if v.K == KUnset || v.K == KFn || v.K == KNative || v.K == KRegex {
				un("selector yields a non-data value")
			}
			res = &Loc{V: v}
		}
	}()
	return res
}

// FromJSON converts a JSON value to a reference value (fresh objects each call).
func FromJSON(j *jsonx.Val) V {
	switch j.K {
	case jsonx.Null:
		return Null
	case jsonx.Bool:
		return Bool(j.B)
	case jsonx.Num:
		return Num(j.N)
	case jsonx.Str:
		return Str(j.S)
	case jsonx.Arr:
		a := &Arr{Stores: 1}
		for _, it := range j.Items {
			v := FromJSON(it)
			a.E = append(a.E, &Loc{V: v})
		}
		return V{K: KArr, A: a}
	case jsonx.Obj:
		o := NewObj()
		for _, k := range j.Keys() {
			o.O.Set(k, &Loc{V: FromJSON(j.Get(k))})
		}
		return o
	}
	panic("FromJSON")
}

// ToJSON converts a reference value to a JSON value; ok is false if the value is
// cyclic or contains something JSON cannot express.
func ToJSON(v V) (j *jsonx.Val, ok bool) {
	var path []interface{}
	var conv func(v V) *jsonx.Val
	good := true
	conv = func(v V) *jsonx.Val {
		switch v.K {
		case KNull, KUnset:
			return jsonx.VNull()
		case KBool:
			return jsonx.VBool(v.B)
		case KNum:
			if !finite(v.N) {
				good = false
				return jsonx.VNull()
			}
			return jsonx.VNum(v.N)
		case KStr:
			return jsonx.VStr(v.S)
		case KArr:
			for _, p := range path {
				if p == interface{}(v.A) {
					good = false
					return jsonx.VNull()
				}
			}
			path = append(path, v.A)
			out := &jsonx.Val{K: jsonx.Arr}
			for _, e := range v.A.E {
				out.Items = append(out.Items, conv(e.V))
			}
			path = path[:len(path)-1]
			return out
		case KObj:
			for _, p := range path {
				if p == interface{}(v.O) {
					good = false
					return jsonx.VNull()
				}
			}
			path = append(path, v.O)
			out := &jsonx.Val{K: jsonx.Obj}
			for _, k := range v.O.Keys {
				out.Members = append(out.Members, jsonx.Member{Key: k, Val: conv(v.O.M[k].V)})
			}
			path = path[:len(path)-1]
			return out
		}
		good = false
		return jsonx.VNull()
	}
	j = conv(v)
	return j, good
}

// ---- frames and names (section 4.2) ----------------------------------------------------

func (i *Interp) top() *frame { return i.frames[len(i.frames)-1] }

const refDepthLimit = 1500

func (i *Interp) push(k frameKind) {
	if len(i.frames) > refDepthLimit {
		un("nesting deeper than the reference models (C20 owns the limit)")
	}
	i.frames = append(i.frames, &frame{kind: k, vars: map[string]*Loc{}})
}
func (i *Interp) pop() { i.frames = i.frames[:len(i.frames)-1] }

func (i *Interp) lookup(name string) *Loc {
	crossed := false
	for k := len(i.frames) - 1; k >= 0; k-- {
		f := i.frames[k]
		if l, ok := f.vars[name]; ok {
			if !crossed || f.kind == fGlobal {
				return l
			}
			un("read of a name that exists only in a caller's frame (dynamic scope)")
		}
		if f.kind == fCall {
			crossed = true
		}
	}
	if strings.HasPrefix(name, "$") {
		rt("unknown variable " + name)
	}
	l := &Loc{V: Unset}
	i.top().vars[name] = l
	return l
}

func (i *Interp) variable(name string) *Loc {
	switch name {
	case "$index":
		if !i.indexValid {
			if !i.indexEver && !i.isSelector {
				rt("unknown variable $index")
			}
			un("$index outside the pattern rules of an array root")
		}
	case "$file":
		if !i.fileValid {
			if i.ruleKind == "BEGIN" && !i.isSelector {
				rt("unknown variable $file")
			}
			un("$file outside file processing")
		}
	}
	return i.lookup(name)
}

// ---- places (section 4.3) ----------------------------------------------------------------

type place struct {
	loc     *Loc // an existing storage location
	tmp     V    // the value, when there is no location
	missing bool // a member / element that does not exist (reads as null)
	parent  *place
	key     V // for missing: KStr or KNum (normalised index)
}

func (p *place) value() V {
	if p.loc != nil {
		return p.loc.V
	}
	if p.missing {
		return Null
	}
	return p.tmp
}

var arrMethods = map[string]bool{"length": true, "push": true, "pop": true, "popfirst": true, "contains": true, "sort": true}
var objMethods = map[string]bool{"length": true, "pluck": true}
var strMethods = map[string]bool{"length": true, "split": true, "lower": true, "upper": true}
var numMethods = map[string]bool{"floor": true, "ceil": true, "round": true}

func toIndex(k V) int {
	x := k.N
	if !finite(x) || math.Abs(x) > 1e15 {
		un("array index not representable")
	}
	return int(x) // truncation toward zero
}

type placeMode int

const (
	mRead       placeMode = iota
	mStoreLast            // the expression is the target of a store
	mStoreInner           // the expression is an inner link of a store target
)

// place evaluates an expression that may denote a location. forStore tells the
// last link that it is the target of a store.
func (i *Interp) place(n *ast.Node, forStore bool) *place {
	if forStore {
		return i.placeMode(n, mStoreLast)
	}
	return i.placeMode(n, mRead)
}

func (i *Interp) placeMode(n *ast.Node, mode placeMode) *place {
	i.step()
	switch n.K {
	case "paren":
		return i.placeMode(n.C[0], mode)
	case "id":
		if mode == mStoreLast && strings.HasPrefix(string(n.S), "$") {
			// $index and $file are variables that the rule driver binds afresh for every
			// element / value: a program may overwrite the current binding
			if !(string(n.S) == "$index" && i.indexValid) && !(string(n.S) == "$file" && i.fileValid) {
				un("assignment to a $-variable")
			}
		}
		return &place{loc: i.variable(string(n.S))}
	case "dollar":
		if i.ruleRoot == nil {
			rt("unknown variable $")
		}
		// (in a BEGIN / END rule $ is a null of that rule's own: C02 says every such rule runs
		// "with $ null", so an assignment lasts until the rule ends)
		if mode == mStoreLast && i.ruleKind != "BEGINFILE" && i.ruleKind != "pattern" && i.ruleKind != "BEGIN" && i.ruleKind != "END" {
			un("assigning $ outside BEGIN, END, BEGINFILE and pattern rules")
		}
		if i.ruleKind == "ENDFILE" && i.rootTouched {
			un("$ in ENDFILE after the root was replaced or resized")
		}
		return &place{loc: i.ruleRoot}
	case "mem", "idx":
		// the inner links of a store target are evaluated "for a store" too: an
		// unset base variable becomes a container at every level of the chain
		baseMode := mRead
		if mode != mRead {
			baseMode = mStoreInner
		}
		bp := i.placeMode(n.C[0], baseMode)
		var key V
		if n.K == "mem" {
			key = Str(string(n.S))
		} else {
			key = i.eval(n.C[1])
		}
		return i.member(bp, key, mode == mStoreLast, mode != mRead)
	}
	return &place{tmp: i.eval(n)}
}

func (i *Interp) method(bp *place, recv V, name string) *place {
	r := recv
	return &place{tmp: V{K: KNative, Nat: &Native{Name: name, Recv: &r, RecvLoc: bp.loc}}}
}

// member resolves one link. forStore: this link is the target of the store;
// underStore: the link is the target or an inner link of a store target.
func (i *Interp) member(bp *place, key V, forStore bool, underStore bool) *place {
	bv := bp.value()
	if bv.K == KUnset {
		if bp.loc == nil {
			un("member of an unset temporary")
		}
		if !underStore {
			// reading x.k of an unset x turns x into a container in the
			// implementation; no document describes that
			un("member read of an unset variable")
		}
		if key.K == KNum {
			bp.loc.V = V{K: KArr, A: &Arr{Stores: 1}}
		} else {
			bp.loc.V = NewObj()
		}
		bv = bp.loc.V
	}
	if key.K == KUnset {
		un("unset key")
	}
	switch bv.K {
	case KArr:
		switch key.K {
		case KNum:
			idx := toIndex(key)
			n := len(bv.A.E)
			if idx < 0 {
				idx += n
				if idx < 0 {
					rt("index out of range")
				}
			}
			if idx < n {
				return &place{loc: bv.A.E[idx]}
			}
			if idx > 1_000_000 {
				if forStore && idx > 2_000_000 {
					rt("index too large")
				}
				un("index near or above the fill limit (C20 owns the limit)")
			}
			return &place{missing: true, parent: bp, key: Num(float64(idx))}
		case KStr:
			if arrMethods[key.S] {
				if forStore {
					// a store addresses the member, not the method: refused like any other
					// member of a value that cannot hold members (C11)
					return &place{missing: true, parent: bp, key: key}
				}
				return i.method(bp, bv, key.S)
			}
			return &place{missing: true, parent: bp, key: key}
		}
		un("array indexed with a non-number, non-string key")
	case KObj:
		if key.K != KNum && key.K != KStr {
			rt("objects can only be indexed with numbers or strings")
		}
		ks := str(key)
		if l := bv.O.Get(ks); l != nil {
			return &place{loc: l}
		}
		if objMethods[ks] && !forStore {
			return i.method(bp, bv, ks)
		}
		return &place{missing: true, parent: bp, key: Str(ks)}
	case KStr:
		if key.K == KStr {
			if strMethods[key.S] {
				if forStore {
					// a store addresses the member, not the method: refused like any other
					// member of a value that cannot hold members (C11)
					return &place{missing: true, parent: bp, key: key}
				}
				return i.method(bp, bv, key.S)
			}
			return &place{missing: true, parent: bp, key: key}
		}
		un("string indexed with a non-string key")
	case KNum:
		if key.K == KStr {
			if numMethods[key.S] {
				if forStore {
					// a store addresses the member, not the method: refused like any other
					// member of a value that cannot hold members (C11)
					return &place{missing: true, parent: bp, key: key}
				}
				return i.method(bp, bv, key.S)
			}
			return &place{missing: true, parent: bp, key: key}
		}
		un("number indexed with a non-string key")
	}
	// bool, null, regex, fn, native: optional chaining
	if key.K != KNum && key.K != KStr {
		un("scalar indexed with a non-number, non-string key")
	}
	if key.K == KNum {
		return &place{missing: true, parent: bp, key: Num(float64(toIndex(key)))}
	}
	return &place{missing: true, parent: bp, key: key}
}

// holdArr records that a location now holds v (KF-array-alias accounting).
func hold(v V) {
	if v.K == KArr {
		v.A.Stores++
	}
}
func release(v V) {
	if v.K == KArr && v.A.Stores > 0 {
		v.A.Stores--
	}
}

func (i *Interp) set(l *Loc, v V) {
	if l == i.curRoot && l != nil {
		i.rootTouched = true
	}
	hold(v)
	release(l.V)
	l.V = v
}

// lenChange is called before an operation changes the length of array a reached
// through location recvLoc (nil for a temporary).
func (i *Interp) lenChange(recvLoc *Loc, a *Arr) {
	if i.curRoot != nil && i.curRoot.V.K == KArr && i.curRoot.V.A == a {
		i.rootTouched = true
	}
	if !i.cfg.Excl.ArrayAlias {
		return
	}
	if recvLoc != nil && recvLoc.V.K == KArr && recvLoc.V.A == a && a.Stores <= 1 {
		return
	}
	if recvLoc == nil && a.Stores == 0 {
		return
	}
	panic(Known{"KF-array-alias"})
}

// storable checks the value side of a store (section 4.3).
func storable(v V) {
	switch v.K {
	case KFn, KNative:
		rt("cannot copy a function")
	case KUnset:
		un("storing an unset value")
	}
}

// materialize makes the missing place exist and returns its location.
func (i *Interp) materialize(p *place) *Loc {
	par := p.parent
	var ploc *Loc
	switch {
	case par.loc != nil:
		ploc = par.loc
	case par.missing:
		ploc = i.materialize(par)
		// (the parent may have come into being since the place was resolved: the right-hand
		// side of this very assignment can create it, as in o.a.b = o.a.c = 1)
		// ... or put a scalar there (o.a.b = (o.a = 5)): nothing is created over it, the store
		// below it fails like any store of a member on a scalar (C11)
		if ploc.V.K == KNull {
			if p.key.K == KNum {
				i.set(ploc, V{K: KArr, A: &Arr{}})
			} else {
				i.set(ploc, NewObj())
			}
		}
	default:
		if par.tmp.K == KNull {
			// a null that is a value (a call's result, a literal, pop() of an empty
			// array) and not a missing place: nothing can be created below it
			rt("could not create this object")
		}
		un("store into a temporary value")
	}
	cv := ploc.V
	switch cv.K {
	case KObj:
		ks := str(p.key)
		if l := cv.O.Get(ks); l != nil {
			return l
		}
		l := &Loc{V: Null}
		cv.O.Set(ks, l)
		return l
	case KArr:
		if p.key.K != KNum {
			rt("array indices must be numbers")
		}
		idx := toIndex(p.key)
		if idx < 0 {
			un("negative index on a created array")
		}
		if idx >= len(cv.A.E) {
			i.lenChange(ploc, cv.A)
			for len(cv.A.E) <= idx {
				cv.A.E = append(cv.A.E, &Loc{V: Null})
			}
			i.ev("pad")
		}
		return cv.A.E[idx]
	case KNull:
		un("store through an existing null")
	case KNum, KStr, KBool, KRegex:
		rt("cannot set member on a scalar")
	}
	un("store through a function value")
	return nil
}

func (i *Interp) storeTo(p *place, v V) {
	storable(v)
	switch {
	case p.loc != nil:
		i.set(p.loc, v)
	case p.missing:
		l := i.materialize(p)
		i.set(l, v)
	default:
		un("assignment to a temporary")
	}
}

// ---- expressions ----------------------------------------------------------------------------

func unescape(raw string) string {
	if strings.IndexByte(raw, '\\') < 0 {
		return raw
	}
	var sb strings.Builder
	for k := 0; k < len(raw); k++ {
		c := raw[k]
		if c != '\\' {
			sb.WriteByte(c)
			continue
		}
		if k == len(raw)-1 {
			rt("unexpected \\ at end of string")
		}
		k++
		switch raw[k] {
		case 'n':
			sb.WriteByte('\n')
		case 't':
			sb.WriteByte('\t')
		case '\\':
			sb.WriteByte('\\')
		default:
			rt("unknown escape char")
		}
	}
	return sb.String()
}

func numLit(spelling string) V {
	f, ok := jsonx.NearestDouble(spelling)
	if !ok {
		// "1.", "1.2.3", "3-1" and the like: what such a token means is C13's
		// business; the differential generators never produce one
		if strings.HasSuffix(spelling, ".") {
			if g, ok2 := jsonx.NearestDouble(strings.TrimSuffix(spelling, ".")); ok2 {
				return Num(g)
			}
		}
		un("malformed numeric literal")
	}
	return Num(f)
}

func (i *Interp) eval(n *ast.Node) V {
	i.step()
	switch n.K {
	case "num":
		return numLit(string(n.S))
	case "str":
		return Str(unescape(string(n.S)))
	case "regex":
		return RegexV(string(n.S))
	case "true":
		return Bool(true)
	case "false":
		return Bool(false)
	case "null":
		return Null
	case "paren":
		return i.eval(n.C[0])
	case "id", "dollar", "mem", "idx":
		p := i.place(n, false)
		return p.value()
	case "arr":
		a := &Arr{}
		for _, it := range n.C {
			v := i.eval(it)
			storable(v)
			hold(v)
			a.E = append(a.E, &Loc{V: v})
		}
		return V{K: KArr, A: a}
	case "obj":
		o := NewObj()
		for _, kv := range n.C {
			key := string(kv.S)
			if kv.T == "str" {
				// a quoted key is a string literal: it denotes its characters, escapes
				// processed (an invalid escape is an error when the literal is evaluated)
				key = unescape(key)
			}
			v := i.eval(kv.C[0])
			storable(v)
			hold(v)
			if old := o.O.Get(key); old != nil {
				release(old.V)
			}
			o.O.Set(key, &Loc{V: v})
		}
		return o
	case "un":
		return Unary(string(n.S), i.eval(n.C[0]))
	case "pre", "post":
		p := i.place(n.C[0], true)
		if p.loc == nil && !p.missing {
			un("++/-- on a temporary")
		}
		x := num(p.value())
		if !finite(x) {
			un("non-finite operand")
		}
		nv := x + 1
		if string(n.S) == "--" {
			nv = x - 1
		}
		i.storeTo(p, Num(nv))
		if n.K == "post" {
			return Num(x)
		}
		return Num(nv)
	case "bin":
		op := string(n.S)
		switch op {
		case "&&":
			if !truthy(i.eval(n.C[0])) {
				return Bool(false)
			}
			return Bool(truthy(i.eval(n.C[1])))
		case "||":
			if truthy(i.eval(n.C[0])) {
				return Bool(true)
			}
			return Bool(truthy(i.eval(n.C[1])))
		}
		a := i.eval(n.C[0])
		b := i.eval(n.C[1])
		return BinOp(op, a, b)
	case "is":
		return IsType(i.eval(n.C[0]), string(n.S))
	case "asg":
		p := i.place(n.C[0], true)
		op := string(n.S)
		if op == "=" {
			v := i.eval(n.C[1])
			i.storeTo(p, v)
			return v
		}
		cur := p.value()
		r := i.eval(n.C[1])
		v := Arith(op[:1], cur, r)
		i.storeTo(p, v)
		return v
	case "call":
		return i.call(n)
	case "match":
		return i.match(n)
	}
	panic("ref: cannot evaluate node kind " + n.K)
}

func (i *Interp) call(n *ast.Node) V {
	callee := n.C[0]
	var fv V
	if callee.K == "mem" || callee.K == "idx" {
		fv = i.place(callee, false).value()
	} else {
		fv = i.eval(callee)
	}
	args := make([]V, 0, len(n.C)-1)
	for _, a := range n.C[1:] {
		v := i.eval(a)
		switch v.K {
		case KFn, KNative:
			rt("cannot copy a function")
		case KUnset:
			// contains(v) is == against every element, and == is false for an unset v (3.6)
			if !(fv.K == KNative && fv.Nat.Name == "contains" && fv.Nat.Recv != nil) {
				un("unset value passed as an argument")
			}
		}
		args = append(args, v)
	}
	switch fv.K {
	case KFn:
		return i.callUser(fv.F, args)
	case KNative:
		return i.native(fv.Nat, args)
	}
	rt("attempted to call a " + fv.K.String())
	return Null
}

func (i *Interp) callUser(f *ast.Node, args []V) (ret V) {
	i.push(fCall)
	i.callDepth++
	if i.callDepth >= 3 {
		i.ev("call-depth>=3")
	}
	defer func() {
		i.callDepth--
		i.pop()
		if r := recover(); r != nil {
			if c, ok := r.(ctl); ok && c.kind == cReturn {
				ret = c.v
				return
			}
			panic(r)
		}
	}()
	for k, name := range f.P {
		v := Null
		if k < len(args) {
			v = args[k]
		}
		hold(v)
		i.top().vars[name] = &Loc{V: v}
	}
	if len(args) != len(f.P) {
		i.ev("argc!=arity")
	}
	i.exec(f.C[0])
	return Null
}

// ---- match (section 4.5) -------------------------------------------------------------------

func (i *Interp) match(n *ast.Node) V {
	sp := i.place(n.C[0], false)
	subj := sp.value()
	// (an unset subject: == is false against every literal (3.6), so only an
	// identifier matches it)
	for ci, cs := range n.C[1:] {
		np := cs.N
		for pi, pat := range cs.C[:np] {
			binds := map[string]V{}
			if !i.matchPat(subj, pat, binds) {
				continue
			}
			if ci > 0 || pi > 0 {
				i.ev("match-not-first")
			}
			if len(binds) > 0 {
				i.ev("match-binds")
			}
			return i.runCase(cs.C[np], binds)
		}
	}
	i.ev("match-none")
	return Null
}

func (i *Interp) runCase(body *ast.Node, binds map[string]V) V {
	i.push(fMatch)
	defer i.pop()
	for k, v := range binds {
		hold(v)
		i.top().vars[k] = &Loc{V: v}
	}
	if body.K == "block" {
		i.exec(body)
		return Null
	}
	return i.eval(body)
}

func (i *Interp) matchPat(v V, pat *ast.Node, binds map[string]V) bool {
	i.step()
	switch pat.K {
	case "num", "str", "true", "false", "null":
		lit := i.eval(pat)
		if v.K == KUnset {
			return false
		}
		return Compare3(v, lit) == 0
	case "id":
		name := string(pat.S)
		if _, dup := binds[name]; dup {
			un("name bound twice in one pattern")
		}
		binds[name] = v
		return true
	case "arr":
		if v.K != KArr || len(v.A.E) != len(pat.C) {
			return false
		}
		for k, sub := range pat.C {
			if !i.matchPat(v.A.E[k].V, sub, binds) {
				return false
			}
		}
		return true
	}
	un("pattern kind not covered by the documents: " + pat.K)
	return false
}

// ---- statements (section 4.4) ---------------------------------------------------------------

func (i *Interp) loopBody(body *ast.Node) (brk bool) {
	defer func() {
		if r := recover(); r != nil {
			if c, ok := r.(ctl); ok {
				switch c.kind {
				case cBreak:
					brk = true
					return
				case cContinue:
					return
				}
			}
			panic(r)
		}
	}()
	i.exec(body)
	return false
}

func (i *Interp) exec(n *ast.Node) {
	i.step()
	switch n.K {
	case "block":
		for _, s := range n.C {
			i.exec(s)
		}
	case "print":
		i.printStmt(n.C)
	case "expr":
		i.eval(n.C[0])
	case "return":
		v := Null
		if len(n.C) > 0 {
			v = i.eval(n.C[0])
			if v.K == KUnset {
				un("returning an unset value")
			}
		}
		panic(ctl{kind: cReturn, v: v})
	case "break":
		panic(ctl{kind: cBreak})
	case "continue":
		panic(ctl{kind: cContinue})
	case "next":
		panic(ctl{kind: cNext})
	case "exit":
		panic(ctl{kind: cExit})
	case "if":
		if truthy(i.eval(n.C[0])) {
			i.exec(n.C[1])
		} else if len(n.C) > 2 && n.C[2] != nil {
			i.exec(n.C[2])
		}
	case "while":
		for truthy(i.eval(n.C[0])) {
			if i.loopBody(n.C[1]) {
				break
			}
		}
	case "for":
		i.eval(n.C[0])
		for truthy(i.eval(n.C[1])) {
			if i.loopBody(n.C[3]) {
				break
			}
			i.eval(n.C[2])
		}
	case "forin":
		i.forIn(n)
	default:
		panic("ref: cannot execute node kind " + n.K)
	}
}

func (i *Interp) forIn(n *ast.Node) {
	v := i.variable(string(n.S))
	var w *Loc
	if n.T != "" {
		w = i.variable(n.T)
	}
	it := i.eval(n.C[0])
	body := n.C[1]
	switch it.K {
	case KArr:
		elems := append([]*Loc{}, it.A.E...)
		for idx, e := range elems {
			// "visits every element exactly once in order": the elements are those the array had
			// when the loop began, also when the body removes some of them meanwhile. Whether
			// elements the body ADDS are visited as well is not decided by that sentence.
			if len(it.A.E) > len(elems) {
				un("iterated array grew inside the loop")
			}
			if w != nil {
				i.set(w, Num(float64(idx)))
			}
			i.set(v, e.V)
			if i.loopBody(body) {
				break
			}
		}
	case KObj:
		remaining := append([]string{}, it.O.Keys...)
		total := len(remaining)
		if total >= 2 {
			i.ev("forin-obj-multi")
		}
		for len(remaining) > 0 {
			k := remaining[0]
			pick := 0
			if len(remaining) >= 2 {
				pick = i.acceptLoopKey(body, string(n.S), remaining)
				k = remaining[pick]
			}
			remaining = append(remaining[:pick], remaining[pick+1:]...)
			l := it.O.Get(k)
			if l == nil || len(it.O.Keys) != total {
				un("iterated object changed inside the loop")
			}
			if w != nil {
				i.set(w, l.V)
			}
			i.set(v, Str(k))
			if i.loopBody(body) {
				break
			}
		}
	case KStr:
		if !utf8.ValidString(it.S) {
			un("for-in over invalid UTF-8")
		}
		for off, r := range it.S {
			if w != nil {
				i.set(w, Num(float64(off)))
			}
			i.set(v, Str(string(r)))
			if r >= 0x80 {
				i.ev("forin-str-multibyte")
			}
			if i.loopBody(body) {
				break
			}
		}
	default:
		rt(it.K.String() + " is not iterable")
	}
}

// acceptLoopKey learns from the implementation's output which key comes next.
// The loop body must start with `print "<marker>", <loopvar>`; otherwise the
// order is not observable at this point and the case is not asserted.
func (i *Interp) acceptLoopKey(body *ast.Node, loopVar string, remaining []string) int {
	first := body
	for first != nil && first.K == "block" {
		if len(first.C) == 0 {
			first = nil
			break
		}
		first = first.C[0]
	}
	if first == nil || first.K != "print" || len(first.C) != 2 || first.C[0].K != "str" ||
		first.C[1].K != "id" || string(first.C[1].S) != loopVar {
		un("for-in over a multi-key object without an order marker")
	}
	marker := string(first.C[0].S)
	rest := i.cfg.Hint
	if i.out.Len() <= len(rest) {
		rest = rest[i.out.Len():]
	} else {
		rest = nil
	}
	prefix := marker + " "
	if bytes.HasPrefix(rest, []byte(prefix)) {
		line := rest[len(prefix):]
		if nl := bytes.IndexByte(line, '\n'); nl >= 0 {
			key := string(line[:nl])
			for idx, k := range remaining {
				if k == key {
					return idx
				}
			}
		}
	}
	// the implementation did not offer a legal next key: take any; the
	// comparison of the outputs will show the difference
	return 0
}
