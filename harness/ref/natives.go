package ref

import (
	"bytes"
	"math"
	"sort"
	"strconv"
	"strings"
	"unicode/utf8"

	"verif/harness/jsonx"
)

func (i *Interp) native(nat *Native, args []V) V {
	i.step()
	if nat.Recv == nil {
		switch nat.Name {
		case "printf":
			return i.printf(args)
		case "json":
			if len(args) != 1 {
				rt("expected 1 argument(s)")
			}
			j, ok := ToJSON(args[0])
			if !ok {
				rt("error creating JSON")
			}
			i.jsonUse = true
			return Str(jsonx.Compact(j))
		case "num":
			if len(args) != 1 {
				rt("expected 1 argument(s)")
			}
			if args[0].K != KStr {
				un("num() of a non-string")
			}
			cls, f := ClassifyNumeric(args[0].S)
			switch cls {
			case StrNumeric:
				return Num(f)
			case StrNonNumeric:
				return Null
			}
			un("num() of an exotic numeric string")
		}
		panic("ref: unknown builtin " + nat.Name)
	}
	recv := *nat.Recv
	switch recv.K {
	case KArr:
		return i.arrMethod(nat, recv, args)
	case KObj:
		return i.objMethod(nat, recv, args)
	case KStr:
		return i.strMethod(nat, recv, args)
	case KNum:
		return i.numMethod(nat, recv, args)
	}
	panic("ref: method on " + recv.K.String())
}

func (i *Interp) arrMethod(nat *Native, recv V, args []V) V {
	a := recv.A
	switch nat.Name {
	case "length":
		if len(args) != 0 {
			un("surplus arguments to length")
		}
		return Num(float64(len(a.E)))
	case "push":
		if len(args) != 1 {
			rt("expected 1 argument(s)")
		}
		hold(args[0])
		i.lenChange(nat.RecvLoc, a)
		a.E = append(a.E, &Loc{V: args[0]})
		i.ev("push")
		return recv
	case "pop":
		if len(args) != 0 {
			rt("expected 0 argument(s)")
		}
		if len(a.E) == 0 {
			i.ev("pop-empty")
			return Null
		}
		i.lenChange(nat.RecvLoc, a)
		v := a.E[len(a.E)-1].V
		a.E = a.E[:len(a.E)-1]
		release(v)
		i.ev("pop")
		return v
	case "popfirst":
		if len(args) != 0 {
			rt("expected 0 argument(s)")
		}
		if len(a.E) == 0 {
			i.ev("pop-empty")
			return Null
		}
		i.lenChange(nat.RecvLoc, a)
		v := a.E[0].V
		a.E = append([]*Loc{}, a.E[1:]...)
		release(v)
		i.ev("popfirst")
		return v
	case "contains":
		if len(args) != 1 {
			rt("expected 1 argument(s)")
		}
		if args[0].K == KUnset {
			return Bool(false)
		}
		for _, e := range a.E {
			if Compare3(args[0], e.V) == 0 {
				return Bool(true)
			}
		}
		return Bool(false)
	case "sort":
		if len(args) != 0 {
			un("surplus arguments to sort")
		}
		allNum := true
		for _, e := range a.E {
			if e.V.K != KNum {
				allNum = false
				break
			}
		}
		out := &Arr{}
		keys := make([]string, len(a.E))
		for k, e := range a.E {
			hold(e.V)
			out.E = append(out.E, &Loc{V: e.V})
			if !allNum {
				keys[k] = str(e.V)
			}
		}
		idx := make([]int, len(a.E))
		for k := range idx {
			idx[k] = k
		}
		sort.SliceStable(idx, func(x, y int) bool {
			if allNum {
				return a.E[idx[x]].V.N < a.E[idx[y]].V.N
			}
			return keys[idx[x]] < keys[idx[y]]
		})
		sorted := &Arr{}
		ties := false
		for k, ix := range idx {
			sorted.E = append(sorted.E, out.E[ix])
			if k > 0 {
				p := idx[k-1]
				if allNum && a.E[p].V.N == a.E[ix].V.N || !allNum && keys[p] == keys[ix] {
					ties = true
				}
			}
		}
		if ties {
			i.ev("sort-ties")
		}
		i.ev("sort")
		return V{K: KArr, A: sorted}
	}
	panic("ref: array method " + nat.Name)
}

func (i *Interp) objMethod(nat *Native, recv V, args []V) V {
	switch nat.Name {
	case "length":
		if len(args) != 0 {
			un("surplus arguments to length")
		}
		return Num(float64(len(recv.O.Keys)))
	case "pluck":
		out := NewObj()
		for _, k := range args {
			if k.K != KNum && k.K != KStr {
				rt("objects can only be indexed with numbers or strings")
			}
			ks := str(k)
			v := Null
			if l := recv.O.Get(ks); l != nil {
				v = l.V
			}
			if old := out.O.Get(ks); old != nil {
				release(old.V)
			}
			hold(v)
			out.O.Set(ks, &Loc{V: v})
		}
		return out
	}
	panic("ref: object method " + nat.Name)
}

// GreedySplit is the left-to-right, non-overlapping split of s on a non-empty sep.
func GreedySplit(s, sep string) []string {
	var out []string
	for {
		k := strings.Index(s, sep)
		if k < 0 {
			out = append(out, s)
			return out
		}
		out = append(out, s[:k])
		s = s[k+len(sep):]
	}
}

func (i *Interp) strMethod(nat *Native, recv V, args []V) V {
	s := recv.S
	switch nat.Name {
	case "length":
		if len(args) != 0 {
			un("surplus arguments to length")
		}
		return Num(float64(len(s)))
	case "split":
		if len(args) < 1 {
			rt("missing argument 0")
		}
		if args[0].K != KStr {
			rt("expected argument 0 to have type string")
		}
		if len(args) > 1 {
			un("surplus arguments to split")
		}
		sep := args[0].S
		var pieces []string
		if sep == "" {
			if !utf8.ValidString(s) {
				un("split(\"\") of invalid UTF-8")
			}
			for _, r := range s {
				pieces = append(pieces, string(r))
			}
		} else {
			pieces = GreedySplit(s, sep)
		}
		out := &Arr{}
		for _, p := range pieces {
			out.E = append(out.E, &Loc{V: Str(p)})
		}
		return V{K: KArr, A: out}
	case "upper", "lower":
		if len(args) != 0 {
			un("surplus arguments to upper/lower")
		}
		if !utf8.ValidString(s) {
			un("case mapping of invalid UTF-8")
		}
		if nat.Name == "upper" {
			return Str(strings.ToUpper(s))
		}
		return Str(strings.ToLower(s))
	}
	panic("ref: string method " + nat.Name)
}

func (i *Interp) numMethod(nat *Native, recv V, args []V) V {
	if len(args) != 0 {
		un("surplus arguments to a number method")
	}
	x := recv.N
	if !finite(x) {
		un("number method on a non-finite number")
	}
	var r float64
	switch nat.Name {
	case "floor":
		r = math.Floor(x)
	case "ceil":
		r = math.Ceil(x)
	case "round":
		r = math.Round(x)
	default:
		panic("ref: number method " + nat.Name)
	}
	if r == 0 {
		un("sign of a zero result of floor/ceil/round")
	}
	return Num(r)
}

// printf implements section 4.7.
func (i *Interp) printf(args []V) V {
	if len(args) < 1 || args[0].K != KStr {
		rt("printf: first argument must be a string")
	}
	f := args[0].S
	var sb bytes.Buffer
	base := i.out.Len()
	argi := 1
	for k := 0; k < len(f); k++ {
		c := f[k]
		if c != '%' {
			sb.WriteByte(c)
			continue
		}
		if k == len(f)-1 {
			rt("expected something after %")
		}
		k++
		width, hasWidth, zero := 0, false, false
		if isDigit(f[k]) || f[k] == '-' {
			e := k + 1
			for e < len(f) && isDigit(f[e]) {
				e++
			}
			ws := f[k:e]
			w, err := strconv.ParseInt(ws, 10, 64)
			if err != nil {
				rt("invalid width specifier")
			}
			if w > 65536 || w < -65536 {
				rt("width specifier too large")
			}
			if ws[0] == '-' && len(ws) > 1 && ws[1] == '0' && w != 0 {
				un("negative width written with a leading zero")
			}
			width, hasWidth, zero = int(w), true, ws[0] == '0'
			k = e
			if k > len(f)-1 {
				rt("expected something after width specifier")
			}
		}
		var r string
		switch f[k] {
		case '%':
			if hasWidth {
				un("width on %%")
			}
			sb.WriteByte('%')
			continue
		case 's':
			if argi >= len(args) || args[argi].K != KStr {
				rt("printf: %s needs a string")
			}
			r = args[argi].S
			argi++
		case 'f':
			if argi >= len(args) || args[argi].K != KNum {
				rt("printf: %f needs a number")
			}
			r = str(args[argi])
			argi++
		case 'v':
			if argi >= len(args) {
				rt("printf: missing argument")
			}
			var tmp bytes.Buffer
			pad := 0
			if width > 0 {
				// left padding comes before the rendering: the acceptor needs the
				// final position, so render twice when padding on the left
				var probe bytes.Buffer
				i.render(&sink{buf: &probe, base: base + sb.Len()}, args[argi], false, nil)
				if width > probe.Len() {
					pad = width - probe.Len()
				}
			}
			i.render(&sink{buf: &tmp, base: base + sb.Len() + pad}, args[argi], false, nil)
			r = tmp.String()
			argi++
		default:
			rt("unknown format code")
		}
		padc := " "
		if zero && width > 0 {
			padc = "0"
		}
		if width > 0 && len(r) < width {
			r = strings.Repeat(padc, width-len(r)) + r
		} else if width < 0 && len(r) < -width {
			r = r + strings.Repeat(" ", -width-len(r))
		}
		sb.WriteString(r)
		if sb.Len() > 4<<20 {
			un("reference output too large")
		}
	}
	i.out.Write(sb.Bytes())
	i.guardOut()
	i.ev("printf")
	return Null
}
