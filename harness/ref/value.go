// Package ref is "refjq": a small reference interpreter for jqawk written from
// DESIGN.md sections 3 and 4 (the property statements and the README), not from
// the implementation. Where the documents are silent it signals Unspecified and
// the case is discarded by the caller, never asserted.
package ref

import (
	"math"
	"strconv"

	"verif/harness/ast"
)

type Kind int

const (
	KNull Kind = iota
	KBool
	KNum
	KStr
	KArr
	KObj
	KRegex
	KFn
	KNative
	KUnset
)

func (k Kind) String() string {
	return [...]string{"null", "bool", "num", "str", "arr", "obj", "regex", "fn", "native", "unset"}[k]
}

// V is a value. Arrays and objects are reference objects (shared on copy),
// everything else is copied.
type V struct {
	K   Kind
	B   bool
	N   float64
	S   string // str, regex source
	A   *Arr
	O   *Obj
	F   *ast.Node // user function
	Nat *Native
}

// Loc is a storage location: a variable, an array element, an object member.
type Loc struct{ V V }

type Arr struct {
	E []*Loc
	// Stores counts how many locations this array has been stored into. It only
	// serves the dynamic exclusion of known finding KF-array-alias (D11).
	Stores int
}

type Obj struct {
	Keys []string // insertion order (internal determinism only; never observable)
	M    map[string]*Loc
}

type Native struct {
	Name string // printf json num, or a method name
	Recv *V     // bound receiver for methods (nil for builtins)
	// RecvLoc is the location the receiver was read from, when it was reached
	// through one (a variable, member or element); nil for temporaries.
	RecvLoc *Loc
}

var (
	Null  = V{K: KNull}
	Unset = V{K: KUnset}
)

func Bool(b bool) V      { return V{K: KBool, B: b} }
func Num(n float64) V    { return V{K: KNum, N: n} }
func Str(s string) V     { return V{K: KStr, S: s} }
func RegexV(s string) V  { return V{K: KRegex, S: s} }
func NewArr(vs ...V) V {
	a := &Arr{}
	for _, v := range vs {
		a.E = append(a.E, &Loc{V: v})
	}
	return V{K: KArr, A: a}
}
func NewObj() V { return V{K: KObj, O: &Obj{M: map[string]*Loc{}}} }

func (o *Obj) Get(k string) *Loc { return o.M[k] }
func (o *Obj) Set(k string, l *Loc) {
	if _, ok := o.M[k]; !ok {
		o.Keys = append(o.Keys, k)
	}
	o.M[k] = l
}

// ---- section 3.1: truthiness ---------------------------------------------------------

// Truthy implements T(v). ok is false where the table says Unspecified.
func Truthy(v V) (t bool, ok bool) {
	switch v.K {
	case KBool:
		return v.B, true
	case KNum:
		if math.IsNaN(v.N) {
			return false, false
		}
		return v.N != 0, true
	case KStr:
		return len(v.S) > 0, true
	case KArr, KObj, KFn, KNative:
		return true, true
	}
	return false, true // null, unset, regex
}

// ---- section 3.2: numeric coercion ---------------------------------------------------

type StrClass int

const (
	StrNumeric StrClass = iota
	StrNonNumeric
	StrExotic
)

// ClassifyNumeric classifies a string per section 3.2 and returns its value when
// numeric.
func ClassifyNumeric(s string) (StrClass, float64) {
	if isDecimalShape(s) {
		f, err := strconv.ParseFloat(s, 64)
		if err != nil || math.IsInf(f, 0) {
			return StrExotic, 0 // overflows to +-Inf
		}
		return StrNumeric, f
	}
	if isExoticShape(s) {
		return StrExotic, 0
	}
	return StrNonNumeric, 0
}

func isDigit(c byte) bool { return c >= '0' && c <= '9' }

// [+-]?(D+(\.D*)?|\.D+)([eE][+-]?D+)?
func isDecimalShape(s string) bool {
	i := 0
	if i < len(s) && (s[i] == '+' || s[i] == '-') {
		i++
	}
	nd := 0
	for i < len(s) && isDigit(s[i]) {
		i++
		nd++
	}
	if i < len(s) && s[i] == '.' {
		i++
		nf := 0
		for i < len(s) && isDigit(s[i]) {
			i++
			nf++
		}
		if nd == 0 && nf == 0 {
			return false
		}
	} else if nd == 0 {
		return false
	}
	if i < len(s) && (s[i] == 'e' || s[i] == 'E') {
		i++
		if i < len(s) && (s[i] == '+' || s[i] == '-') {
			i++
		}
		ne := 0
		for i < len(s) && isDigit(s[i]) {
			i++
			ne++
		}
		if ne == 0 {
			return false
		}
	}
	return i == len(s)
}

// isExoticShape is deliberately generous: anything that some float parser might
// accept and that is not plain decimal is "exotic" (never asserted).
func isExoticShape(s string) bool {
	if s == "" {
		return false
	}
	// leading / trailing whitespace around something that has a digit or looks special
	trim := s
	for len(trim) > 0 && isSpace(trim[0]) {
		trim = trim[1:]
	}
	for len(trim) > 0 && isSpace(trim[len(trim)-1]) {
		trim = trim[:len(trim)-1]
	}
	if trim == "" {
		return false // all whitespace: non-numeric
	}
	if len(trim) != len(s) {
		if isDecimalShape(trim) || isExoticShape(trim) {
			return true
		}
		return false
	}
	t := s
	if t[0] == '+' || t[0] == '-' {
		t = t[1:]
	}
	lower := make([]byte, len(t))
	for i := 0; i < len(t); i++ {
		c := t[i]
		if c >= 'A' && c <= 'Z' {
			c += 'a' - 'A'
		}
		lower[i] = c
	}
	l := string(lower)
	switch l {
	case "inf", "infinity", "nan":
		return true
	}
	if len(l) >= 2 && l[0] == '0' && (l[1] == 'x' || l[1] == 'b' || l[1] == 'o') {
		return true
	}
	// digits with underscores
	hasDigit, hasUnderscore, other := false, false, false
	for i := 0; i < len(l); i++ {
		switch {
		case isDigit(l[i]):
			hasDigit = true
		case l[i] == '_':
			hasUnderscore = true
		case l[i] == '.' || l[i] == 'e' || l[i] == '+' || l[i] == '-':
		default:
			other = true
		}
	}
	if hasDigit && hasUnderscore && !other {
		return true
	}
	return false
}

func isSpace(c byte) bool {
	return c == ' ' || c == '\t' || c == '\n' || c == '\r' || c == '\v' || c == '\f'
}

// ToNum implements N(v). ok is false for exotic strings.
func ToNum(v V) (n float64, ok bool) {
	switch v.K {
	case KNum:
		return v.N, true
	case KBool:
		if v.B {
			return 1, true
		}
		return 0, true
	case KStr:
		cls, f := ClassifyNumeric(v.S)
		switch cls {
		case StrNumeric:
			return f, true
		case StrNonNumeric:
			return 0, true
		}
		return 0, false
	}
	return 0, true
}

// ---- section 3.3: string form --------------------------------------------------------

// Dec is DEC(x): shortest decimal that reads back as x, positional, no exponent.
func Dec(x float64) string {
	return strconv.FormatFloat(x, 'f', -1, 64)
}

// ToStr implements S(v). ok is false for non-finite numbers.
func ToStr(v V) (s string, ok bool) {
	switch v.K {
	case KStr:
		return v.S, true
	case KNum:
		if math.IsNaN(v.N) || math.IsInf(v.N, 0) {
			return "", false
		}
		return Dec(v.N), true
	}
	return "", true
}
