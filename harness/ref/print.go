package ref

import (
	"bytes"

	"verif/harness/ast"
)

// sink is where rendered text goes; pos() is the offset of the next byte in the
// overall stdout, which is where the key-order acceptor looks in the hint.
type sink struct {
	buf  *bytes.Buffer
	base int
}

func (s *sink) pos() int { return s.base + s.buf.Len() }

// printStmt implements section 4.6. args == nil with len 0 means a bare print.
func (i *Interp) printStmt(args []*ast.Node) {
	if len(args) == 0 {
		if i.ruleRoot == nil {
			un("bare print without $")
		}
		if i.ruleKind == "ENDFILE" && i.rootTouched {
			un("$ in ENDFILE after the root was replaced or resized")
		}
		s := &sink{buf: i.out}
		i.render(s, i.ruleRoot.V, false, nil)
		i.out.WriteByte('\n')
		i.guardOut()
		return
	}
	vals := make([]V, len(args))
	for k, a := range args {
		vals[k] = i.eval(a)
	}
	s := &sink{buf: i.out}
	for k, v := range vals {
		if k > 0 {
			i.out.WriteByte(' ')
		}
		i.render(s, v, false, nil)
	}
	i.out.WriteByte('\n')
	i.guardOut()
}

func (i *Interp) guardOut() {
	if i.out.Len() > 4<<20 {
		un("reference output too large")
	}
}

// render implements R(v) / R'(v).
func (i *Interp) render(s *sink, v V, nested bool, path []interface{}) {
	i.step()
	switch v.K {
	case KStr:
		if nested {
			s.buf.WriteByte('"')
			s.buf.WriteString(v.S)
			s.buf.WriteByte('"')
		} else {
			s.buf.WriteString(v.S)
		}
	case KNum:
		if !finite(v.N) {
			un("rendering of a non-finite number")
		}
		s.buf.WriteString(Dec(v.N))
	case KBool:
		if v.B {
			s.buf.WriteString("true")
		} else {
			s.buf.WriteString("false")
		}
	case KNull:
		s.buf.WriteString("null")
	case KArr:
		for _, p := range path {
			if p == interface{}(v.A) {
				s.buf.WriteString("<circular reference>")
				i.ev("print-cycle")
				return
			}
		}
		np := append(path[:len(path):len(path)], interface{}(v.A))
		s.buf.WriteByte('[')
		for k, e := range v.A.E {
			if k > 0 {
				s.buf.WriteString(", ")
			}
			i.render(s, e.V, true, np)
		}
		s.buf.WriteByte(']')
	case KObj:
		for _, p := range path {
			if p == interface{}(v.O) {
				s.buf.WriteString("<circular reference>")
				i.ev("print-cycle")
				return
			}
		}
		np := append(path[:len(path):len(path)], interface{}(v.O))
		s.buf.WriteByte('{')
		remaining := append([]string{}, v.O.Keys...)
		if len(remaining) >= 2 {
			i.ev("print-obj-multi")
		}
		first := true
		for len(remaining) > 0 {
			if !first {
				s.buf.WriteString(", ")
			}
			first = false
			pick := 0
			if len(remaining) >= 2 {
				pick = i.acceptRenderedKey(s.pos(), remaining)
			}
			k := remaining[pick]
			remaining = append(remaining[:pick], remaining[pick+1:]...)
			s.buf.WriteByte('"')
			s.buf.WriteString(k)
			s.buf.WriteString("\": ")
			i.render(s, v.O.M[k].V, true, np)
		}
		s.buf.WriteByte('}')
	default:
		un("rendering of a " + v.K.String() + " value")
	}
}

func (i *Interp) acceptRenderedKey(pos int, remaining []string) int {
	hint := i.cfg.Hint
	if pos > len(hint) {
		return 0
	}
	rest := hint[pos:]
	found := -1
	for idx, k := range remaining {
		pre := "\"" + k + "\": "
		if bytes.HasPrefix(rest, []byte(pre)) {
			if found >= 0 {
				un("object keys whose renderings are prefixes of one another")
			}
			found = idx
		}
	}
	if found < 0 {
		return 0
	}
	return found
}
