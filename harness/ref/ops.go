package ref

import (
	"math"
	"regexp"
	"strings"
)

// Signals raised (by panic) inside the reference interpreter.
type RuntimeErr struct{ Msg string }
type Unspec struct{ Reason string }
type Known struct{ ID string }

func rt(msg string) { panic(RuntimeErr{msg}) }
func un(r string)   { panic(Unspec{r}) }

func finite(x float64) bool { return !math.IsNaN(x) && !math.IsInf(x, 0) }

func num(v V) float64 {
	n, ok := ToNum(v)
	if !ok {
		un("exotic numeric string")
	}
	return n
}

func str(v V) string {
	s, ok := ToStr(v)
	if !ok {
		un("string form of non-finite number")
	}
	return s
}

func truthy(v V) bool {
	t, ok := Truthy(v)
	if !ok {
		un("truthiness of NaN")
	}
	return t
}

func numResult(x float64) V {
	if !finite(x) {
		un("non-finite arithmetic result")
	}
	return Num(x)
}

const two53 = 9007199254740992.0

// Arith implements section 3.4 for + - * / %.
func Arith(op string, a, b V) V {
	if op == "+" && (a.K == KStr || b.K == KStr) {
		return Str(str(a) + str(b))
	}
	x, y := num(a), num(b)
	if !finite(x) || !finite(y) {
		un("non-finite operand")
	}
	switch op {
	case "+":
		return numResult(x + y)
	case "-":
		return numResult(x - y)
	case "*":
		return numResult(x * y)
	case "/":
		if y == 0 {
			rt("divide by zero")
		}
		return numResult(x / y)
	case "%":
		if math.Abs(x) >= two53 || math.Abs(y) >= two53 {
			un("% operand outside +-2^53")
		}
		i, j := int64(x), int64(y)
		if j == 0 {
			rt("divide by zero")
		}
		return Num(float64(i % j))
	}
	panic("Arith: bad op " + op)
}

// Compare3 implements lines 2-7 of table 3.6: it returns c, or raises.
func Compare3(a, b V) int {
	switch {
	case a.K == KNull && b.K == KNull:
		return 0
	case a.K == KNull:
		return -1
	case b.K == KNull:
		return 1
	}
	if a.K == KArr || a.K == KObj || b.K == KArr || b.K == KObj {
		rt("cannot compare containers")
	}
	if a.K == KStr && b.K == KStr {
		return strings.Compare(a.S, b.S)
	}
	x, y := num(a), num(b)
	if math.IsNaN(x) || math.IsNaN(y) {
		un("NaN comparison")
	}
	switch {
	case x > y:
		return 1
	case x < y:
		return -1
	}
	return 0
}

// Cmp implements table 3.6 for == != < <= > >=.
func Cmp(op string, a, b V) V {
	if a.K == KUnset || b.K == KUnset {
		return Bool(op == "<" || op == ">")
	}
	c := Compare3(a, b)
	switch op {
	case "<":
		return Bool(c < 0)
	case ">":
		return Bool(c > 0)
	case "==":
		return Bool(c == 0)
	case "!=":
		return Bool(c != 0)
	case "<=":
		return Bool(c <= 0)
	case ">=":
		return Bool(c >= 0)
	}
	panic("Cmp: bad op " + op)
}

// Tilde implements section 3.8.
func Tilde(op string, a, b V) V {
	s := str(a)
	var pat string
	switch b.K {
	case KStr, KRegex:
		pat = b.S
	default:
		rt("a regex or a string must appear on the right hand side of ~")
	}
	re, err := regexp.Compile(pat)
	if err != nil {
		rt("invalid regex")
	}
	m := re.MatchString(s)
	if op == "!~" {
		m = !m
	}
	return Bool(m)
}

// IsType implements section 3.7.
func IsType(a V, typ string) V {
	switch typ {
	case "string":
		return Bool(a.K == KStr)
	case "bool":
		return Bool(a.K == KBool)
	case "number":
		return Bool(a.K == KNum)
	case "array":
		return Bool(a.K == KArr)
	case "object":
		return Bool(a.K == KObj)
	case "regex":
		return Bool(a.K == KRegex)
	case "unknown":
		return Bool(a.K == KUnset)
	case "null":
		return Bool(a.K == KNull)
	case "function":
		if a.K == KNative {
			un("is function on a native function")
		}
		return Bool(a.K == KFn)
	}
	un("is with unknown type name")
	return Null
}

// Unary implements ! - +.
func Unary(op string, a V) V {
	switch op {
	case "!":
		return Bool(!truthy(a))
	case "-":
		x := num(a)
		if !finite(x) {
			un("non-finite operand")
		}
		return Num(-x)
	case "+":
		x := num(a)
		if !finite(x) {
			un("non-finite operand")
		}
		return Num(x)
	}
	panic("Unary: bad op " + op)
}

// BinOp applies a non-short-circuit binary operator to evaluated operands.
func BinOp(op string, a, b V) V {
	switch op {
	case "+", "-", "*", "/", "%":
		return Arith(op, a, b)
	case "==", "!=", "<", "<=", ">", ">=":
		return Cmp(op, a, b)
	case "~", "!~":
		return Tilde(op, a, b)
	}
	panic("BinOp: bad op " + op)
}
