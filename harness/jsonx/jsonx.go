// Package jsonx holds the harness's own JSON machinery: a value tree, a strict
// RFC 8259 recogniser/parser written independently of encoding/json, an
// order-free comparison, and an exact decimal -> nearest-double oracle.
package jsonx

import (
	"fmt"
	"math"
	"math/big"
	"sort"
	"strconv"
	"strings"
	"unicode/utf16"
	"unicode/utf8"
)

type Kind int

const (
	Null Kind = iota
	Bool
	Num
	Str
	Arr
	Obj
)

// Val is a JSON value. Objects keep their members in order of appearance; a
// key may appear several times in Members (as in the text); Get returns the
// last one, as every mainstream decoder does.
type Val struct {
	K       Kind
	B       bool
	N       float64
	S       string
	Items   []*Val
	Members []Member
}

type Member struct {
	Key string
	Val *Val
}

func VNull() *Val            { return &Val{K: Null} }
func VBool(b bool) *Val      { return &Val{K: Bool, B: b} }
func VNum(n float64) *Val    { return &Val{K: Num, N: n} }
func VStr(s string) *Val     { return &Val{K: Str, S: s} }
func VArr(items ...*Val) *Val { return &Val{K: Arr, Items: items} }
func VObj(ms ...Member) *Val  { return &Val{K: Obj, Members: ms} }

// Get returns the effective member (last duplicate wins).
func (v *Val) Get(key string) *Val {
	for i := len(v.Members) - 1; i >= 0; i-- {
		if v.Members[i].Key == key {
			return v.Members[i].Val
		}
	}
	return nil
}

// Keys returns the distinct keys in order of first appearance.
func (v *Val) Keys() []string {
	seen := map[string]bool{}
	var ks []string
	for _, m := range v.Members {
		if !seen[m.Key] {
			seen[m.Key] = true
			ks = append(ks, m.Key)
		}
	}
	return ks
}

// Equal compares two values: objects order-free (effective members), numbers
// as doubles (0 == -0 is accepted as equal: JSON text cannot carry the
// difference reliably through every encoder; sign of zero is checked where a
// property needs it).
func Equal(a, b *Val) bool {
	if a.K != b.K {
		return false
	}
	switch a.K {
	case Null:
		return true
	case Bool:
		return a.B == b.B
	case Num:
		return a.N == b.N
	case Str:
		return a.S == b.S
	case Arr:
		if len(a.Items) != len(b.Items) {
			return false
		}
		for i := range a.Items {
			if !Equal(a.Items[i], b.Items[i]) {
				return false
			}
		}
		return true
	case Obj:
		ka, kb := a.Keys(), b.Keys()
		if len(ka) != len(kb) {
			return false
		}
		for _, k := range ka {
			vb := b.Get(k)
			if vb == nil || !Equal(a.Get(k), vb) {
				return false
			}
		}
		return true
	}
	return false
}

// Compact writes a canonical compact rendering (sorted keys) for messages.
func Compact(v *Val) string {
	var sb strings.Builder
	compact(&sb, v)
	return sb.String()
}

func compact(sb *strings.Builder, v *Val) {
	switch v.K {
	case Null:
		sb.WriteString("null")
	case Bool:
		if v.B {
			sb.WriteString("true")
		} else {
			sb.WriteString("false")
		}
	case Num:
		sb.WriteString(strconv.FormatFloat(v.N, 'g', -1, 64))
	case Str:
		sb.WriteString(Quote(v.S))
	case Arr:
		sb.WriteByte('[')
		for i, it := range v.Items {
			if i > 0 {
				sb.WriteByte(',')
			}
			compact(sb, it)
		}
		sb.WriteByte(']')
	case Obj:
		ks := v.Keys()
		sort.Strings(ks)
		sb.WriteByte('{')
		for i, k := range ks {
			if i > 0 {
				sb.WriteByte(',')
			}
			sb.WriteString(Quote(k))
			sb.WriteByte(':')
			compact(sb, v.Get(k))
		}
		sb.WriteByte('}')
	}
}

// Quote spells a string as a JSON string literal (invalid UTF-8 becomes U+FFFD).
func Quote(s string) string {
	var sb strings.Builder
	sb.WriteByte('"')
	for _, r := range s {
		switch {
		case r == '"' || r == '\\':
			sb.WriteByte('\\')
			sb.WriteRune(r)
		case r < 0x20:
			fmt.Fprintf(&sb, "\\u%04x", r)
		default:
			sb.WriteRune(r)
		}
	}
	sb.WriteByte('"')
	return sb.String()
}

// ---- strict parser ------------------------------------------------------------------

type parser struct {
	s   string
	pos int
	// depth guard (the recogniser is recursive)
	depth int
}

type SyntaxError struct {
	Pos int
	Msg string
}

func (e *SyntaxError) Error() string { return fmt.Sprintf("jsonx: %s at byte %d", e.Msg, e.Pos) }

func (p *parser) fail(msg string) { panic(&SyntaxError{p.pos, msg}) }

func (p *parser) ws() {
	for p.pos < len(p.s) {
		switch p.s[p.pos] {
		case ' ', '\t', '\n', '\r':
			p.pos++
		default:
			return
		}
	}
}

// Parse parses exactly one JSON text (RFC 8259: optional whitespace, one value,
// optional whitespace, end of input).
func Parse(s string) (v *Val, err error) {
	p := &parser{s: s}
	defer func() {
		if r := recover(); r != nil {
			if se, ok := r.(*SyntaxError); ok {
				v, err = nil, se
				return
			}
			panic(r)
		}
	}()
	p.ws()
	v = p.value()
	p.ws()
	if p.pos != len(p.s) {
		p.fail("trailing data")
	}
	return v, nil
}

// ParsePrefix parses one value from the start of s (after optional whitespace)
// and returns the offset just past it.
func ParsePrefix(s string) (v *Val, end int, err error) {
	p := &parser{s: s}
	defer func() {
		if r := recover(); r != nil {
			if se, ok := r.(*SyntaxError); ok {
				v, end, err = nil, se.Pos, se
				return
			}
			panic(r)
		}
	}()
	p.ws()
	v = p.value()
	return v, p.pos, nil
}

func (p *parser) value() *Val {
	if p.pos >= len(p.s) {
		p.fail("unexpected end of input")
	}
	p.depth++
	if p.depth > 100000 {
		p.fail("too deep")
	}
	defer func() { p.depth-- }()
	switch c := p.s[p.pos]; {
	case c == '{':
		p.pos++
		v := &Val{K: Obj}
		p.ws()
		if p.pos < len(p.s) && p.s[p.pos] == '}' {
			p.pos++
			return v
		}
		for {
			p.ws()
			if p.pos >= len(p.s) || p.s[p.pos] != '"' {
				p.fail("expected object key")
			}
			k := p.str()
			p.ws()
			if p.pos >= len(p.s) || p.s[p.pos] != ':' {
				p.fail("expected ':'")
			}
			p.pos++
			p.ws()
			val := p.value()
			v.Members = append(v.Members, Member{k, val})
			p.ws()
			if p.pos >= len(p.s) {
				p.fail("unterminated object")
			}
			if p.s[p.pos] == ',' {
				p.pos++
				continue
			}
			if p.s[p.pos] == '}' {
				p.pos++
				return v
			}
			p.fail("expected ',' or '}'")
		}
	case c == '[':
		p.pos++
		v := &Val{K: Arr}
		p.ws()
		if p.pos < len(p.s) && p.s[p.pos] == ']' {
			p.pos++
			return v
		}
		for {
			p.ws()
			v.Items = append(v.Items, p.value())
			p.ws()
			if p.pos >= len(p.s) {
				p.fail("unterminated array")
			}
			if p.s[p.pos] == ',' {
				p.pos++
				continue
			}
			if p.s[p.pos] == ']' {
				p.pos++
				return v
			}
			p.fail("expected ',' or ']'")
		}
	case c == '"':
		return VStr(p.str())
	case c == 't':
		p.lit("true")
		return VBool(true)
	case c == 'f':
		p.lit("false")
		return VBool(false)
	case c == 'n':
		p.lit("null")
		return VNull()
	case c == '-' || (c >= '0' && c <= '9'):
		return VNum(p.num())
	}
	p.fail("unexpected character")
	return nil
}

func (p *parser) lit(w string) {
	if !strings.HasPrefix(p.s[p.pos:], w) {
		p.fail("bad literal")
	}
	p.pos += len(w)
}

func (p *parser) num() float64 {
	start := p.pos
	if p.s[p.pos] == '-' {
		p.pos++
	}
	if p.pos >= len(p.s) {
		p.fail("bad number")
	}
	if p.s[p.pos] == '0' {
		p.pos++
	} else if p.s[p.pos] >= '1' && p.s[p.pos] <= '9' {
		for p.pos < len(p.s) && p.s[p.pos] >= '0' && p.s[p.pos] <= '9' {
			p.pos++
		}
	} else {
		p.fail("bad number")
	}
	if p.pos < len(p.s) && p.s[p.pos] == '.' {
		p.pos++
		n := 0
		for p.pos < len(p.s) && p.s[p.pos] >= '0' && p.s[p.pos] <= '9' {
			p.pos++
			n++
		}
		if n == 0 {
			p.fail("bad fraction")
		}
	}
	if p.pos < len(p.s) && (p.s[p.pos] == 'e' || p.s[p.pos] == 'E') {
		p.pos++
		if p.pos < len(p.s) && (p.s[p.pos] == '+' || p.s[p.pos] == '-') {
			p.pos++
		}
		n := 0
		for p.pos < len(p.s) && p.s[p.pos] >= '0' && p.s[p.pos] <= '9' {
			p.pos++
			n++
		}
		if n == 0 {
			p.fail("bad exponent")
		}
	}
	f, ok := NearestDouble(p.s[start:p.pos])
	if !ok {
		p.fail("number out of range")
	}
	return f
}

func (p *parser) str() string {
	p.pos++ // opening quote
	var sb strings.Builder
	for {
		if p.pos >= len(p.s) {
			p.fail("unterminated string")
		}
		c := p.s[p.pos]
		switch {
		case c == '"':
			p.pos++
			return sb.String()
		case c < 0x20:
			p.fail("control character in string")
		case c == '\\':
			p.pos++
			if p.pos >= len(p.s) {
				p.fail("unterminated escape")
			}
			e := p.s[p.pos]
			p.pos++
			switch e {
			case '"', '\\', '/':
				sb.WriteByte(e)
			case 'b':
				sb.WriteByte('\b')
			case 'f':
				sb.WriteByte('\f')
			case 'n':
				sb.WriteByte('\n')
			case 'r':
				sb.WriteByte('\r')
			case 't':
				sb.WriteByte('\t')
			case 'u':
				r := p.hex4()
				if utf16.IsSurrogate(r) {
					if strings.HasPrefix(p.s[p.pos:], "\\u") {
						save := p.pos
						p.pos += 2
						r2 := p.hex4()
						if dec := utf16.DecodeRune(r, r2); dec != utf8.RuneError {
							sb.WriteRune(dec)
							continue
						}
						p.pos = save
					}
					sb.WriteRune(utf8.RuneError)
				} else {
					sb.WriteRune(r)
				}
			default:
				p.fail("bad escape")
			}
		case c < 0x80:
			sb.WriteByte(c)
			p.pos++
		default:
			r, size := utf8.DecodeRuneInString(p.s[p.pos:])
			if r == utf8.RuneError && size == 1 {
				p.fail("invalid UTF-8")
			}
			sb.WriteString(p.s[p.pos : p.pos+size])
			p.pos += size
		}
	}
}

func (p *parser) hex4() rune {
	if p.pos+4 > len(p.s) {
		p.fail("short \\u escape")
	}
	var r rune
	for i := 0; i < 4; i++ {
		c := p.s[p.pos+i]
		var d byte
		switch {
		case c >= '0' && c <= '9':
			d = c - '0'
		case c >= 'a' && c <= 'f':
			d = c - 'a' + 10
		case c >= 'A' && c <= 'F':
			d = c - 'A' + 10
		default:
			p.fail("bad hex digit")
		}
		r = r<<4 | rune(d)
	}
	p.pos += 4
	return r
}

// ---- exact number oracle ------------------------------------------------------------

// NearestDouble converts a decimal numeral (JSON or jqawk spelling, optional
// sign, optional fraction, optional exponent) to the nearest IEEE double with
// exact rational arithmetic (round half to even). ok is false if the numeral is
// malformed or rounds to infinity.
func NearestDouble(s string) (float64, bool) {
	neg := false
	t := s
	if strings.HasPrefix(t, "-") {
		neg = true
		t = t[1:]
	} else if strings.HasPrefix(t, "+") {
		t = t[1:]
	}
	if t == "" {
		return 0, false
	}
	mant := t
	exp := 0
	if i := strings.IndexAny(t, "eE"); i >= 0 {
		mant = t[:i]
		e, err := strconv.Atoi(t[i+1:])
		if err != nil {
			// huge exponent: decide by sign
			es := t[i+1:]
			if strings.HasPrefix(es, "-") {
				if neg {
					return math.Copysign(0, -1), true
				}
				return 0, true
			}
			return 0, false
		}
		exp = e
	}
	digits := mant
	if i := strings.IndexByte(mant, '.'); i >= 0 {
		digits = mant[:i] + mant[i+1:]
		exp -= len(mant) - i - 1
	}
	if digits == "" {
		return 0, false
	}
	for _, c := range digits {
		if c < '0' || c > '9' {
			return 0, false
		}
	}
	n := new(big.Int)
	n.SetString(digits, 10)
	if n.Sign() == 0 {
		if neg {
			return math.Copysign(0, -1), true
		}
		return 0, true
	}
	if exp > 400 {
		return 0, false
	}
	if exp < -1200 {
		// far below the smallest subnormal / 2
		if len(digits)+exp < -400 {
			if neg {
				return math.Copysign(0, -1), true
			}
			return 0, true
		}
	}
	r := new(big.Rat).SetInt(n)
	ten := big.NewInt(10)
	if exp > 0 {
		r.Mul(r, new(big.Rat).SetInt(new(big.Int).Exp(ten, big.NewInt(int64(exp)), nil)))
	} else if exp < 0 {
		r.Quo(r, new(big.Rat).SetInt(new(big.Int).Exp(ten, big.NewInt(int64(-exp)), nil)))
	}
	f, _ := r.Float64() // nearest, ties to even (documented)
	if math.IsInf(f, 0) {
		return 0, false
	}
	if neg {
		f = -f
	}
	return f, true
}
