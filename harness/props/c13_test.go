package props

import (
	"bytes"
	"encoding/json"
	"fmt"
	"sort"
	"strings"
	"testing"

	"verif/harness/ast"
	"verif/harness/gen"
	"verif/harness/run"

	"pgregory.net/rapid"
)

// C13 — a program's meaning depends only on its tokens, not on layout,
// comments or quoting.

type C13Case struct {
	Base    *DCase   `json:"base"`
	Layouts []ast.BS `json:"layouts"` // alternative layouts of the same token sequence
}

var c13KeywordLike = []string{"printx", "iffy", "nextone", "_in", "isa", "BEGINX", "xEND", "if2", "fortune", "whiled", "exits", "nullable", "truex",
	"matchbox", "returned", "elsewhere", "functional", "breaker", "continued", "ins", "ENDFILEX", "falsey", "in_", "is_"}

var c13NumSpellings = []string{"007", "1.50", "0.0", "10", "3", "2.5", "100", "0", "1", "12", "0.5", "00", "3.0",
	"2147483648", "9007199254740993", "999999999999999999", "9223372036854775807", "9223372036854775808", "9999999999999999999", "18446744073709551616", "12345678901234567890", "9999999999999999999.0", "123456789012345678901234567890"}

// c13MainPattern: half of the programs have a (true) pattern in front of the main rule's body,
// so that layouts put blanks, comments and line breaks between a pattern and its '{'
func c13MainPattern(t *rapid.T) *ast.Node {
	if rapid.Bool().Draw(t, "mainpattern") {
		return rapid.SampledFrom([]*ast.Node{ast.Bin("!=", ast.Dollar(), ast.Str("no such value")), ast.Un("!", ast.Is(ast.Dollar(), "function")), ast.Num("1"), ast.Bin("<", ast.Num("1"), ast.Num("2"))}).Draw(t, "truepattern").Clone()
	}
	return nil
}

func c13Lexical(t *rapid.T) *DCase {
	n := func(lo, hi int, l string) int { return rapid.IntRange(lo, hi).Draw(t, l) }
	num := func() *ast.Node { return ast.Num(rapid.SampledFrom(c13NumSpellings).Draw(t, "numsp")) }
	var vars []string
	var stmts []*ast.Node
	nv := n(1, 4, "nvars")
	for k := 0; k < nv; k++ {
		v := rapid.SampledFrom(c13KeywordLike).Draw(t, "kwvar")
		vars = append(vars, v)
		stmts = append(stmts, ast.ExprS(ast.Set(ast.Id(v), num())))
	}
	operand := func() *ast.Node {
		switch n(0, 3, "opnd") {
		case 0:
			return ast.Id(vars[n(0, len(vars)-1, "v")])
		case 1:
			return ast.Idx(ast.Arr(num(), num()), ast.Num(fmt.Sprint(n(0, 1, "ix"))))
		case 2:
			if n(0, 2, "nummethod") == 0 {
				// a method called on a numeric literal: the literal ends before the member operator
				m := ast.Method(num(), rapid.SampledFrom([]string{"floor", "ceil", "round"}).Draw(t, "nmeth"))
				if n(0, 1, "negated") == 0 {
					// a sign in front of the literal is an operator of its own: -2.5.floor() is -(2.5.floor())
					return ast.Un("-", m)
				}
				return m
			}
			if n(0, 3, "signed") == 0 {
				return ast.Un(rapid.SampledFrom([]string{"-", "+", "!"}).Draw(t, "sign"), num())
			}
		}
		return num()
	}
	var arith func(d int) *ast.Node
	arith = func(d int) *ast.Node {
		if d <= 0 || n(0, 2, "leaf") == 0 {
			return operand()
		}
		op := rapid.SampledFrom([]string{"-", "-", "+", "*", "<", ">", "==", "/", "%"}).Draw(t, "aop")
		return ast.Bin(op, arith(d-1), arith(d-1))
	}
	strLit := func() *ast.Node {
		switch n(0, 7, "strkind") {
		case 0:
			return ast.Str("a\\nb")
		case 1:
			return ast.Str(rapid.SampledFrom([]string{"tab\\tx\\\\y", "C:\\\\dir\\\\", "\\\\", "\\\\\\\\", "end\\n", "\\t", "a\\\\\\n",
				// an escaped backslash directly followed by the letters n and t (no line feed, no tab)
				// multi-byte text next to an escape
				"café\\tau lait", "日本\\n語", "é\\\\é", "→\\t←",
				"a\\\\nb", "C:\\\\new\\\\table", "\\\\n", "\\\\t", "\\\\\\\\n\\\\\\t"}).Draw(t, "escstr"))
		case 2:
			return ast.Str("it's")
		case 3:
			return ast.Str("say \"hi\"")
		case 4:
			return ast.Str("# not a comment ; { }")
		case 5:
			b := make([]byte, n(0, 8, "rawlen"))
			for k := range b {
				c := byte(n(1, 255, "rawbyte"))
				if c == '"' || c == '\'' || c == '\\' {
					c = '~'
				}
				b[k] = c
			}
			return ast.Str(string(b))
		case 6:
			return ast.Str("line1\nline2")
		}
		return ast.Str(rapid.SampledFrom([]string{"", "x", "BEGIN", "print", "1-1"}).Draw(t, "plainstr"))
	}
	ns := n(2, 6, "nstmts")
	for k := 0; k < ns; k++ {
		switch n(0, 9, "form") {
		case 9:
			// a quoted literal whose characters spell a number next to the numeric literal with
			// the same spelling: the one is those characters, the other a number, in either order
			sp := rapid.SampledFrom(c13NumSpellings).Draw(t, "twinsp")
			sl, nl := ast.Str(sp), ast.Num(sp)
			uses := []*ast.Node{ast.Print(ast.Bin("+", sl, ast.Num("1")), ast.Is(sl.Clone(), "string"), ast.Method(sl.Clone(), "length")),
				ast.Print(ast.Bin("+", nl, ast.Num("1")), ast.Is(nl.Clone(), "number"), ast.Bin("+", ast.Str("<"), nl.Clone()))}
			if n(0, 1, "twinorder") == 0 {
				uses[0], uses[1] = uses[1], uses[0]
			}
			stmts = append(stmts, uses...)
		case 0, 1, 2:
			stmts = append(stmts, ast.Print(arith(2)))
		case 3:
			v := vars[n(0, len(vars)-1, "av")]
			stmts = append(stmts, ast.ExprS(ast.Set(ast.Id(v), arith(2))), ast.Print(ast.Id(v)))
		case 4:
			stmts = append(stmts, ast.Print(strLit(), strLit()))
		case 5:
			// an invalid escape in a dead position must not matter
			bad := ast.Str(rapid.SampledFrom([]string{"\\q", "x\\", "\\\"", "a\\zb"}).Draw(t, "badesc"))
			stmts = append(stmts, ast.If(ast.False(), ast.Block(ast.Print(bad))), ast.Print(ast.Str("alive")))
		case 6:
			// ... and is a runtime error when evaluated
			bad := ast.Str(rapid.SampledFrom([]string{"\\q", "x\\", "a\\zb", "\\N", "a\\\\\\", "\\\\\\\\\\"}).Draw(t, "badesc2"))
			stmts = append(stmts, ast.Print(ast.Str("before")), ast.Print(bad))
		case 7:
			// quoted object keys are string literals too
			key := rapid.SampledFrom([]string{"a\\tb", "q\\\\", "line\\nbreak", "plain", "it's", "two words", "", "a\\\\tb", "c:\\\\new\\\\n", "\\\\\\\\"}).Draw(t, "qkey")
			mk := []*ast.Node{ast.ExprS(ast.Set(ast.Id("qo"), ast.Obj(ast.KVs(key, num()), ast.KV("plain2", num())))),
				ast.Print(ast.Idx(ast.Id("qo"), ast.Str(key)), ast.Idx(ast.Id("qo"), ast.Str("a\\\\tb")), ast.Id("qo"))}
			if n(0, 1, "keytwice") == 0 {
				// the same literal evaluated again: the key denotes the same characters every time
				stmts = append(stmts, ast.For(ast.Set(ast.Id("qi"), ast.Num("0")), ast.Bin("<", ast.Id("qi"), ast.Num("3")), ast.Post("++", ast.Id("qi")), ast.Block(mk...)))
			} else {
				stmts = append(stmts, mk...)
			}
			if n(0, 3, "badkey") == 0 {
				stmts = append(stmts, ast.Print(ast.Str("before-bad-key")), ast.ExprS(ast.Set(ast.Id("qo"), ast.Obj(ast.KVs(rapid.SampledFrom([]string{"\\q", "x\\"}).Draw(t, "badqkey"), num())))))
			}
		default:
			stmts = append(stmts, ast.Print())
		}
	}
	// a function and a second statement after a bare print exercise ';' handling
	items := []*ast.Node{
		ast.Func("fnx", []string{"inx"}, ast.Block(ast.Print(), ast.Print(ast.Id("inx")), ast.Return(ast.Bin("-", ast.Id("inx"), ast.Num("1"))))),
		ast.Rule("pattern", c13MainPattern(t), ast.Block(append(stmts, ast.Print(ast.Call(ast.Id("fnx"), ast.Num("3"))))...)),
	}
	if n(0, 2, "tailrule") == 0 {
		// a rule without a body as the last thing in the text: the program ends in a
		// literal, an identifier or a closing bracket instead of '}'
		tail := rapid.SampledFrom([]*ast.Node{
			ast.Bin(">", ast.Dollar(), num()), ast.Bin("<", num(), ast.Dollar()), ast.Bin("==", ast.Dollar(), ast.Idx(ast.Arr(num()), ast.Num("0"))),
			ast.Bin("!=", ast.Dollar(), ast.Str("x")), ast.Id(vars[0]), ast.Method(num(), "floor"),
		}).Draw(t, "tailpat").Clone()
		items = append(items, ast.Rule("pattern", tail, nil))
	}
	// half of the programs are written without redundant parentheses (2.5.floor() rather than (2.5).floor())
	return &DCase{Prog: ast.Prog(items...), Files: []DFile{{Name: "in", Docs: []string{`[7]`}}}, Min: rapid.Bool().Draw(t, "minimalparens")}
}

func c13Base(t *rapid.T) (*DCase, string) {
	switch rapid.IntRange(0, 7).Draw(t, "source") {
	case 0, 1, 2:
		return c13Lexical(t), "lexical"
	case 3:
		c, _ := genC07(t, 3)
		return c, "control-flow"
	case 4:
		c, _ := genC08(t)
		return c, "calls"
	case 5:
		c, _ := genC19(t)
		return c, "match"
	case 6:
		c, _, _ := genC17(t)
		return c, "values"
	default:
		c, _ := genC18(t)
		return c, "printf"
	}
}

func c13Run(src string, c *DCase) run.Outcome {
	return run.InProc(src, c.inFiles(), c.SelSources(), run.Opts{Budget: implBudget})
}

func c13Check(c *C13Case) string {
	base := c.Base.Source()
	o0 := c13Run(base, c.Base)
	for k, l := range c.Layouts {
		o := c13Run(string(l), c.Base)
		if o.Class != o0.Class || !bytes.Equal(o.Stdout, o0.Stdout) {
			return fmt.Sprintf("layout %d of the same token sequence behaves differently\n canonical -> %s (%s) %q\n layout    -> %s (%s) %q\n--- canonical ---\n%s\n--- layout ---\n%s",
				k, o0.Class, o0.Msg, clip(string(o0.Stdout)), o.Class, o.Msg, clip(string(o.Stdout)), base, string(l))
		}
	}
	return ""
}

func TestC13(t *testing.T) {
	rec := start(t, "C13", "exploration",
		"terminating traced programs (a lexical family: numbers spelled 007 / 1.50 / 0.0 and glued to operators, identifiers containing keywords as prefix / suffix / infix used as variables, strings over all bytes except their delimiter, \\n \\t \\\\ escapes, invalid escapes in evaluated and in dead positions, bare print followed by further statements; plus the C07 / C08 / C19 / C17 / C18 program generators) are rendered to a token list; 4 (8 thorough) random layouts of the same tokens - between two tokens nothing (only where they cannot fuse), spaces, tabs, CR, newline, or comment + newline, never a newline directly after print / return, after a comma of a print list or before ';'; each statement separator newline or ';' (not after '}'); each string in either quote when possible - must give the same stdout and outcome class as the canonical layout; the canonical layout is also compared with refjq (what the literals denote). Non-trivial: the layouts differ from the canonical one by a newline inside a statement, a comment, an operator glued to a number, ';' vs newline, or a quote swap. distinct = distinct set of layout texts.")
	defer rec.Finish()
	rec.Assume("the harness renderer's gluing rules (two tokens may touch unless they would fuse into another token) state what 'the same token sequence' means")
	rec.Replayer("layout", func(raw json.RawMessage) error {
		var c C13Case
		if err := json.Unmarshal(raw, &c); err != nil {
			return err
		}
		if m := c13Check(&c); m != "" {
			return fmt.Errorf("%s", m)
		}
		return nil
	})
	rec.Replayer("denotation", replayDiff(false))
	if rec.ReplayOnly() {
		return
	}
	excl.ArrayAlias = rec.KnownActive("KF-array-alias", false)
	rec.ReplayTier()
	nlay := 4
	if evThorough() {
		nlay = 8
	}
	check(rec, "layout-random", scale(8000, 2500000), func(rt *rapid.T) {
		base, family := c13Base(rt)
		style := ast.Full
		if base.Min {
			style = ast.Minimal
		}
		r := ast.Render(base.Prog, style)
		c := &C13Case{Base: base}
		feats := map[string]bool{}
		for k := 0; k < nlay; k++ {
			lay := gen.NewRandLayout(rt)
			text := strings.TrimRight(r.Join(lay).Src, " \t\r\n")
			// what follows the last token: nothing at all, blanks, newlines, a comment
			text += rapid.SampledFrom([]string{"", "", "\n", " ", "\n\n", "\t", " # c", "\n# c\n", "\r\n"}).Draw(rt, "afterlast")
			c.Layouts = append(c.Layouts, ast.BS(text))
			for f := range lay.Features {
				feats[f] = true
			}
		}
		var fl []string
		for f := range feats {
			fl = append(fl, "layout:"+f)
		}
		sort.Strings(fl)
		msg := c13Check(c)
		nt := feats["newline-inside-statement"] || feats["comment"] || feats["operator-glued-to-number"] || feats["semicolon"] || feats["single-quotes"]
		rec.Case(joinBS(c.Layouts), nt, append(fl, "family:"+family)...)
		rec.Sample(func() interface{} {
			return map[string]interface{}{"canonical": base.Source(), "layout": string(c.Layouts[0]), "family": family}
		})
		if msg != "" {
			rec.Pending("layout", c, string(c.Layouts[0]), msg)
			rt.Fatalf("%s", msg)
		}
		// what the literals denote: the canonical layout against refjq
		if family == "lexical" {
			d := differential(base, false)
			if d.Verdict == "fail" {
				rec.Pending("denotation", base, d.Src, d.Reason)
				rt.Fatalf("%s\n%s", d.Reason, d.Src)
			}
			if d.Verdict == "discard" {
				rec.Discard(d.Reason)
			}
		}
	})
}

func joinBS(xs []ast.BS) string {
	var sb strings.Builder
	for _, x := range xs {
		sb.WriteString(string(x))
		sb.WriteByte(0)
	}
	return sb.String()
}
