package props

import (
	"bytes"
	"encoding/json"
	"fmt"
	"strings"
	"testing"

	"verif/harness/ast"
	"verif/harness/run"

	"pgregory.net/rapid"
)

// C14 — the command line is a faithful wrapper: -f, stdin, -r, -o, file order,
// exit code.

type C14Config struct {
	Prog     ast.BS   `json:"prog"`
	Sels     []string `json:"sels,omitempty"`
	Files    []DFile  `json:"files"`          // named input files (name -> stream)
	Stdin    bool     `json:"stdin"`          // feed Files[0] on stdin instead
	ProgFile bool     `json:"prog_file"`      // give the program with -f
	Out      string   `json:"out"`            // "", "-", "FILE", "MISSINGDIR"
	// OutExists: the -o FILE already exists (with longer, unrelated content) before the run
	OutExists bool `json:"out_exists,omitempty"`
	// InPlace: -o names the (single) input file itself
	InPlace bool `json:"in_place,omitempty"`
	// Glob: the first input file has a name that reads as a wildcard pattern (in[0].json, in?.json,
	// in*.json); a sibling file that the pattern would match exists and is NOT an input
	Glob string `json:"glob,omitempty"`
	// StdinFile: standard input is redirected from a regular file instead of being a pipe
	StdinFile bool `json:"stdin_file,omitempty"`
	// Fifo: the input files are named pipes instead of regular files (same bytes, same names)
	Fifo bool `json:"fifo,omitempty"`
	// SelNames: the selector mentions something besides $ ($file, a global of the program)
	SelNames bool `json:"sel_names,omitempty"`
	Missing  int      `json:"missing"`        // index of a file argument that does not exist (-1: none)
	Dir      int      `json:"dir"`            // index of a file argument that is a directory (-1: none)
	UsesFile bool     `json:"uses_file"`      // the program prints $file
	HasBFEF  bool     `json:"has_bfef"`       // the program has BEGINFILE / ENDFILE rules of its own
}

func (c *C14Config) outName() string {
	if c.InPlace && len(c.Files) > 0 {
		return c.Files[0].Name
	}
	return "out.json"
}

func (c *C14Config) data(i int) []byte { return []byte(strings.Join(c.Files[i].Docs, "\n")) }

type cliOut struct {
	stdout, stderr string
	exit           int
	outFile        []byte
	outFileErr     bool
	ok             bool // the run itself could be performed (no watchdog)
}

// what an already existing -o FILE holds before the run: longer than most outputs
var c14OldOut = strings.Repeat("{\"old\": \"contents of an earlier run, much longer than the new document\"}\n", 40)

func (c *C14Config) runCLI(progFile bool, stdin bool, out string, prog string, sels []string) cliOut {
	var args []string
	files := map[string][]byte{}
	for _, s := range sels {
		args = append(args, "-r", s)
	}
	switch out {
	case "-":
		args = append(args, "-o", "-")
	case "FILE":
		args = append(args, "-o", c.outName())
	case "MISSINGDIR":
		args = append(args, "-o", "nodir/out.json")
	case "DEVFULL":
		// the file can be created but every write to it fails
		args = append(args, "-o", "/dev/full")
	}
	if progFile {
		files["prog.jqawk"] = []byte(prog)
		args = append(args, "-f", "prog.jqawk", "--")
	} else {
		args = append(args, "--", prog)
	}
	if out == "FILE" && c.OutExists && !c.InPlace {
		files["out.json"] = []byte(c14OldOut)
	}
	if c.Glob != "" && !stdin {
		files["in0.json"] = []byte("[\"a sibling file that is not an input\"]\n")
	}
	var in []byte
	fifos := map[string][]byte{}
	if stdin {
		in = c.data(0)
	} else {
		for i, f := range c.Files {
			name := f.Name
			switch {
			case i == c.Missing:
				// not created
			case i == c.Dir:
				files[name+"/.keep"] = nil
			case c.Fifo && !c.InPlace:
				fifos[name] = c.data(i)
			default:
				files[name] = c.data(i)
			}
			args = append(args, name)
		}
	}
	res, err := run.CLI(run.CLIOpts{Args: args, Stdin: in, StdinFromFile: stdin && c.StdinFile, Files: files, Fifos: fifos, KeepDir: out == "FILE"})
	if err != nil || res.TimedOut {
		if res != nil {
			res.Cleanup()
		}
		return cliOut{}
	}
	co := cliOut{stdout: string(res.Stdout), stderr: string(res.Stderr), exit: res.Exit, ok: true}
	if res.Signal != "" {
		co.exit = -1
		co.stderr += " [killed by " + res.Signal + "]"
	}
	if out == "FILE" {
		data, rerr := osReadFile(res.Dir + "/" + c.outName())
		co.outFile, co.outFileErr = data, rerr != nil
		res.Cleanup()
	}
	return co
}

// library runs lang.EvalProgram on the same configuration.
func (c *C14Config) library(prog string, sels []string, stdin bool) run.Outcome {
	var files []run.InFile
	if stdin {
		files = []run.InFile{{Name: "<stdin>", Data: c.data(0)}}
	} else {
		for i, f := range c.Files {
			if i == c.Dir {
				// a directory can be opened but not read: the library sees a reader that fails
				files = append(files, run.InFile{Name: f.Name, Reader: failingReader{}})
				continue
			}
			files = append(files, run.InFile{Name: f.Name, Data: c.data(i)})
		}
	}
	return run.InProc(prog, files, sels, run.Opts{Budget: implBudget, WantRoot: true})
}

func crashy(o cliOut) string {
	if m := run.LooksLikeCrash([]byte(o.stderr)); m != "" {
		return fmt.Sprintf("the binary crashed (%s): %s", m, clip(o.stderr))
	}
	if o.exit != 0 && o.exit != 1 {
		return fmt.Sprintf("exit status %d: %s", o.exit, clip(o.stderr))
	}
	if o.exit == 1 && strings.TrimSpace(o.stderr) == "" {
		return "exit status 1 without a diagnostic on stderr"
	}
	return ""
}

func c14Check(c *C14Config) string {
	prog := string(c.Prog)
	main := c.runCLI(c.ProgFile, c.Stdin, c.Out, prog, c.Sels)
	if !main.ok {
		return ""
	}
	if m := crashy(main); m != "" {
		return m
	}
	nInputs := len(c.Files)
	if c.Stdin {
		nInputs = 1
	}
	// (7) error paths of the front end
	if !c.Stdin && c.Missing >= 0 {
		if main.exit == 0 {
			return fmt.Sprintf("input file %q does not exist but the exit status is 0", c.Files[c.Missing].Name)
		}
		if main.stdout != "" {
			return fmt.Sprintf("an input file is missing, yet the program ran and printed %q", clip(main.stdout))
		}
		return ""
	}
	lib := c.library(prog, c.Sels, c.Stdin)
	if lib.Class == "panic" || lib.Class == "budget" {
		return "" // C01's business
	}
	// (1) CLI = library
	wantOut := string(lib.Stdout)
	wantExit := 0
	if lib.Class != "ok" {
		wantExit = 1
	}
	if lib.Class == "ok" && c.Out != "" {
		switch {
		case nInputs > 1:
			wantExit = 1
		case lib.RootPanic != "":
			return "" // C01's business (no root to serialise)
		case lib.RootErr != "":
			wantExit = 1
		case c.Out == "-":
			wantOut += lib.RootJSON
		case c.Out == "MISSINGDIR":
			wantExit = 1
		case c.Out == "DEVFULL" && len(lib.RootJSON) > 0:
			wantExit = 1
		}
	}
	if main.stdout != wantOut {
		return fmt.Sprintf("stdout of the binary differs from the library's output (+ JSON for -o -)\n%s", outDiff([]byte(main.stdout), []byte(wantOut)))
	}
	if main.exit != wantExit {
		return fmt.Sprintf("exit status %d, expected %d (library outcome %s %s, -o %q, %d input(s)); stderr %q", main.exit, wantExit, lib.Class, lib.Msg, c.Out, nInputs, clip(main.stderr))
	}
	// (4) -o FILE writes exactly what -o - prints after the program's own output
	if c.Out == "FILE" && wantExit == 0 {
		if main.outFileErr {
			return "-o FILE did not create the file"
		}
		if string(main.outFile) != lib.RootJSON {
			return fmt.Sprintf("-o FILE wrote %q, the library's JSON is %q", clip(string(main.outFile)), clip(lib.RootJSON))
		}
		dash := c.runCLI(c.ProgFile, c.Stdin, "-", prog, c.Sels)
		if dash.ok && dash.stdout != main.stdout+string(main.outFile) {
			return fmt.Sprintf("-o - prints %q, which is not the program's output followed by what -o FILE wrote (%q)", clip(dash.stdout), clip(string(main.outFile)))
		}
	}
	if c.Out == "FILE" && wantExit != 0 && !main.outFileErr && lib.Class != "ok" && !(c.OutExists && string(main.outFile) == c14OldOut) && !(c.InPlace && bytes.Equal(main.outFile, c.data(0))) {
		return fmt.Sprintf("the program failed, yet -o FILE was written (now %q)", clip(string(main.outFile)))
	}
	// (2) -f == inline
	other := c.runCLI(!c.ProgFile, c.Stdin, c.Out, prog, c.Sels)
	if other.ok && (other.stdout != main.stdout || other.exit != main.exit || other.stderr != main.stderr) {
		return fmt.Sprintf("-f FILE and the inline program behave differently\n -f=%v: exit %d stdout %q stderr %q\n -f=%v: exit %d stdout %q stderr %q", c.ProgFile, main.exit, clip(main.stdout), clip(main.stderr), !c.ProgFile, other.exit, clip(other.stdout), clip(other.stderr))
	}
	// (3) stdin == the same bytes in a named file (apart from $file)
	if len(c.Files) == 1 && !c.UsesFile && lib.Class != "json" {
		alt := c.runCLI(c.ProgFile, !c.Stdin, c.Out, prog, c.Sels)
		if alt.ok && (alt.stdout != main.stdout || alt.exit != main.exit) {
			return fmt.Sprintf("stdin and a named file with the same bytes behave differently\n stdin=%v: exit %d stdout %q\n stdin=%v: exit %d stdout %q", c.Stdin, main.exit, clip(main.stdout), !c.Stdin, alt.exit, clip(alt.stdout))
		}
	}
	// (6) -r E P == BEGINFILE { $ = E } P
	if c.SelNames && c14ExclSelectorScope {
		// known finding KF-selector-scope: excluded by construction, counted by the caller
		c14Excluded++
		return ""
	}
	if len(c.Sels) == 1 && !c.HasBFEF && nInputs == 1 {
		eq := "BEGINFILE { $ = " + c.Sels[0] + " }\n" + prog
		alt := c.runCLI(c.ProgFile, c.Stdin, c.Out, eq, nil)
		if alt.ok && (alt.stdout != main.stdout || alt.exit != main.exit) {
			return fmt.Sprintf("-r %q and BEGINFILE { $ = %s } behave differently\n -r:        exit %d stdout %q\n BEGINFILE: exit %d stdout %q", c.Sels[0], c.Sels[0], main.exit, clip(main.stdout), alt.exit, clip(alt.stdout))
		}
		if alt.ok && c.Out == "FILE" && !bytes.Equal(alt.outFile, main.outFile) {
			return fmt.Sprintf("-r %q and BEGINFILE { $ = %s } write different JSON: %q vs %q", c.Sels[0], c.Sels[0], clip(string(main.outFile)), clip(string(alt.outFile)))
		}
	}
	return ""
}

// KF-selector-scope: while the finding is open, oracle (6) is not applied to selectors that
// mention anything besides $ (everything else about such configurations stays under test)
var c14ExclSelectorScope bool
var c14Excluded int

func genC14(t *rapid.T) (*C14Config, []string) {
	c := &C14Config{Missing: -1, Dir: -1}
	var labels []string
	// program and inputs
	switch rapid.IntRange(0, 6).Draw(t, "source") {
	case 6:
		// selectors that find nothing in several values (and files) of a run, and a pattern rule
		// that assigns to $: every such root is a null of its own, as BEGINFILE { $ = E } gives
		c.Prog = ast.BS(rapid.SampledFrom([]string{
			"{ print $ }\n$ == null { missing++\n$ = \"none\" }\nEND { print \"missing\", missing }",
			"{ print $\n$ = [$, \"seen\"]\nprint $ }",
			"$ == null { $ = {filled: true} }\n{ print $ }",
			"{ n++\nif ($ == null) { $ = n }\nprint n, $ }",
		}).Draw(t, "nullprog"))
		for k, n := 0, rapid.IntRange(1, 2).Draw(t, "nnullfiles"); k < n; k++ {
			var docs []string
			for j, m := 0, rapid.IntRange(2, 4).Draw(t, "nnulldocs"); j < m; j++ {
				docs = append(docs, rapid.SampledFrom([]string{`{"id":1}`, `{"id":2,"tags":null}`, `{"id":3,"tags":[1]}`, `{"tags":"t"}`, `{"id":4}`, `{"tags":"100% of %s and %d"}`}).Draw(t, "nulldoc"))
			}
			c.Files = append(c.Files, DFile{Name: "f", Docs: docs})
		}
		c.Sels = [][]string{{"$.tags"}, {"$.nosuch"}, {"$.tags", "$.nosuch"}, {"$.nosuch", "$.tags"}}[rapid.IntRange(0, 3).Draw(t, "nullsel")]
		labels = append(labels, "selectors-that-find-nothing-several-times")
	case 5:
		// degenerate program texts: empty, blank, comment only, empty rules
		c.Prog = ast.BS(rapid.SampledFrom([]string{"", "", " ", "\n", "\n\n", "# only a comment", "# c\n", "\t\n# c\n\n", "BEGIN { }", "{ }", "END { }", "{ }\n", "$", "1"}).Draw(t, "degenerate"))
		n := rapid.IntRange(1, 3).Draw(t, "ndegfiles")
		for k := 0; k < n; k++ {
			c.Files = append(c.Files, DFile{Name: "f", Docs: []string{rapid.SampledFrom([]string{`[1,2]`, `{"a":1}`, `"s"`, `[]`, `{"a":{"b":[3]}}`, `{"50%":"%s %d %v %!"}`, `["%", "%%", "100%"]`}).Draw(t, "degdoc")}})
		}
		if rapid.Bool().Draw(t, "degsel") {
			// a selector with a program that has no rule which would look at the selected root
			c.Sels = []string{rapid.SampledFrom([]string{"$.a", "$[0]", "$.a.b", "[$, 1]", "$.missing"}).Draw(t, "degselector")}
			c.Files = c.Files[:1]
		}
		labels = append(labels, "degenerate-program")
	case 0, 1:
		d, _ := genC02(t)
		c.Prog = ast.BS(d.Source())
		c.Files = d.Files
		c.Sels = d.SelSources()
		c.UsesFile = strings.Contains(string(c.Prog), "$file")
		c.HasBFEF = strings.Contains(string(c.Prog), "BEGINFILE") || strings.Contains(string(c.Prog), "ENDFILE")
	case 2:
		d, _ := genC09(t, 6)
		c.Prog = ast.BS(d.Source())
		c.Files = d.Files
	case 3:
		d, _ := genC07(t, 3)
		c.Prog = ast.BS(d.Source())
		c.Files = d.Files
	default:
		f, _ := genC11Fault(t)
		c.Prog = ast.BS(f.Case.Source())
		c.Files = f.Case.Files
		c.Sels = f.Case.SelSources()
		c.HasBFEF = true
	}
	if len(c.Files) == 0 {
		c.Files = []DFile{{Name: "f0", Docs: []string{`[1,2]`}}}
	}
	for i := range c.Files {
		c.Files[i].Name = fmt.Sprintf("in%d.json", i)
	}
	if rapid.IntRange(0, 5).Draw(t, "globname") == 0 {
		// a file name that is a file name, not a pattern
		c.Glob = rapid.SampledFrom([]string{"in[0].json", "in?.json", "in*.json"}).Draw(t, "globpattern")
		c.Files[0].Name = c.Glob
		labels = append(labels, "file-name-with-wildcard-characters")
	}
	// now and then an input that is not clean JSON text: the binary must treat the
	// bytes exactly as the library does, whether they come from a file or from stdin
	if rapid.IntRange(0, 7).Draw(t, "hostileinput") == 0 {
		f := &c.Files[rapid.IntRange(0, len(c.Files)-1).Draw(t, "hostilefile")]
		how := rapid.SampledFrom([]string{"bom", "bom-only", "nul", "leading-space", "trailing-garbage", "truncated", "empty", "crlf", "trailing-bom"}).Draw(t, "hostilehow")
		text := strings.Join(f.Docs, "\n")
		switch how {
		case "bom":
			text = "\ufeff" + text
		case "bom-only":
			text = "\ufeff"
		case "nul":
			text = "\x00" + text
		case "leading-space":
			text = " \n\t\r\n" + text + "\n\n "
		case "trailing-garbage":
			text += " ]"
		case "truncated":
			if len(text) > 1 {
				text = text[:len(text)-1]
			}
		case "empty":
			text = ""
		case "crlf":
			text = strings.ReplaceAll(text, "\n", "\r\n") + "\r\n"
		case "trailing-bom":
			text += "\ufeff"
		}
		f.Docs = []string{text}
		labels = append(labels, "hostile-input:"+how)
	}
	// selectors for programs that came without
	if len(c.Sels) == 0 && rapid.IntRange(0, 2).Draw(t, "addsel") == 0 {
		n := rapid.IntRange(1, 2).Draw(t, "nsel")
		for k := 0; k < n; k++ {
			c.Sels = append(c.Sels, rapid.SampledFrom([]string{"$", "$.a", "$[0]", "$.items", "$.missing", "[$, 1]", "{k: $}"}).Draw(t, "sel"))
		}
	}
	// one physical line of the program text longer than 64 KiB (a comment, or a long string)
	if rapid.IntRange(0, 11).Draw(t, "longline") == 0 {
		if rapid.Bool().Draw(t, "longcomment") {
			c.Prog = ast.BS("# " + strings.Repeat("x", 70000) + "\n" + string(c.Prog))
		} else {
			c.Prog = ast.BS("BEGIN { c14long = \"" + strings.Repeat("y", 70000) + "\" }\n" + string(c.Prog) + "\nEND { print c14long.length() }\n")
		}
		labels = append(labels, "line-longer-than-64KiB")
	}
	// a selector over more than $: the file name, a global the program sets in BEGIN
	if len(c.Sels) == 0 && !c.HasBFEF && rapid.IntRange(0, 9).Draw(t, "selnames") == 0 {
		c.Sels = []string{rapid.SampledFrom([]string{"$file", "[$, $file]", "c14g", "{k: c14g, v: $}"}).Draw(t, "namedsel")}
		c.Prog = ast.BS("BEGIN { c14g = \"G\" }\n" + string(c.Prog))
		c.SelNames = true
		labels = append(labels, "selector-mentions-other-names")
	}
	c.ProgFile = rapid.Bool().Draw(t, "progfile")
	c.Stdin = len(c.Files) == 1 && rapid.Bool().Draw(t, "stdin")
	if rapid.Bool().Draw(t, "stdinfile") {
		// (whenever standard input is used in this configuration: redirected from a file, not piped)
		c.StdinFile = true
	}
	c.Out = rapid.SampledFrom([]string{"", "", "-", "-", "FILE", "FILE", "MISSINGDIR", "DEVFULL"}).Draw(t, "out")
	if c.Out == "FILE" && rapid.Bool().Draw(t, "outexists") {
		c.OutExists = true
		labels = append(labels, "-o-file-exists")
	}
	if !c.Stdin {
		switch rapid.IntRange(0, 11).Draw(t, "badinput") {
		case 0:
			c.Missing = rapid.IntRange(0, len(c.Files)-1).Draw(t, "missing")
			labels = append(labels, "missing-input")
		case 1:
			c.Dir = rapid.IntRange(0, len(c.Files)-1).Draw(t, "dir")
			labels = append(labels, "directory-input")
		}
	}
	// -o names the input file itself: the document is rewritten in place
	if c.Out == "FILE" && !c.Stdin && len(c.Files) == 1 && c.Missing < 0 && c.Dir < 0 && rapid.IntRange(0, 3).Draw(t, "inplace") == 0 {
		c.InPlace = true
		c.OutExists = false
		labels = append(labels, "-o-is-the-input-file")
	}
	// the same path named twice: it is read twice, in the positions given
	if !c.Stdin && !c.InPlace && c.Missing < 0 && c.Dir < 0 && rapid.IntRange(0, 7).Draw(t, "dupfile") == 0 {
		c.Files = append(c.Files, c.Files[rapid.IntRange(0, len(c.Files)-1).Draw(t, "dupwhich")])
		labels = append(labels, "same-file-twice")
	} else if !c.Stdin && !c.InPlace && rapid.IntRange(0, 3).Draw(t, "fifo") == 0 {
		// the inputs are named pipes (a FIFO has no size to stat and cannot be re-read)
		c.Fifo = true
		labels = append(labels, "inputs-are-named-pipes")
	}
	feat := 0
	if c.ProgFile {
		feat++
		labels = append(labels, "-f")
	}
	if len(c.Files) >= 2 && !c.Stdin {
		feat++
		labels = append(labels, "several-files")
	}
	if len(c.Sels) >= 1 {
		feat++
		labels = append(labels, fmt.Sprintf("selectors-%d", len(c.Sels)))
	}
	if c.Out != "" {
		feat++
		labels = append(labels, "-o:"+c.Out)
	}
	if c.Stdin {
		labels = append(labels, "stdin")
	}
	if feat >= 2 || c.Missing >= 0 || c.Dir >= 0 || c.Out == "MISSINGDIR" || c.Out == "DEVFULL" {
		labels = append(labels, "nontrivial")
	}
	return c, labels
}

func TestC14(t *testing.T) {
	rec := start(t, "C14", "exploration",
		"configurations: program given inline or with -f FILE x input on stdin / one named file / 2-3 named files (also the same path twice) / a missing file / a directory among them x 0-2 -r selectors x -o absent / - / a path (new, already existing with longer content, or the input file itself) / a path in a missing directory / /dev/full (creatable, every write fails); one input in eight is not clean JSON text (byte order mark, NUL, surrounding whitespace, trailing garbage, truncated, empty, CRLF); programs and inputs from the C02 / C09 / C07 / C11 generators, including runs ending in each error kind, degenerate program texts (empty, blank, comment only, empty rules, a bare pattern), and program texts with one line longer than 64 KiB; each configuration is materialised in a private directory. Oracles: (1) stdout of the binary = stdout of lang.EvalProgram (+ GetRootJson text for -o -), exit status 0 iff the library returned nil and -o could be satisfied, otherwise 1 with a diagnostic; (2) -f == inline; (3) stdin == the same bytes in a named file for programs not printing $file; (4) -o FILE bytes == what -o - prints after the program's own output; (5) file and selector order through the $file / $ traces of the C02 programs; (6) -r E P == BEGINFILE { $ = E } P for one selector and programs without BEGINFILE / ENDFILE rules; (7) missing input, directory input, -o with several inputs, unwritable -o path: non-zero status and a diagnostic, never a stack trace. Non-trivial: >= 2 of {-f, >= 2 files, >= 1 selector, -o} or an error path. distinct = distinct configuration.")
	defer rec.Finish()
	rec.Assume("the library interpreter (lang.EvalProgram + GetRootJson) is the reference for what the binary must print; its own correctness is the subject of the other properties")
	rec.Replayer("config", func(raw json.RawMessage) error {
		var c C14Config
		if err := json.Unmarshal(raw, &c); err != nil {
			return err
		}
		if m := c14Check(&c); m != "" {
			return fmt.Errorf("%s\nprogram:\n%s", m, c.Prog)
		}
		return nil
	})
	if rec.ReplayOnly() {
		return
	}
	if run.CLIBinary() == "" {
		t.Fatalf("HARNESS-ERROR: the binary was not built")
	}
	excl.ArrayAlias = rec.KnownActive("KF-array-alias", false)
	c14ExclSelectorScope = rec.KnownActive("KF-selector-scope", true)
	rec.ReplayTier()
	check(rec, "config-random", scale(800, 50000), func(rt *rapid.T) {
		c, labels := genC14(rt)
		before := c14Excluded
		msg := c14Check(c)
		if c14Excluded > before {
			rec.Excluded("KF-selector-scope")
		}
		nt := false
		for _, l := range labels {
			if l == "nontrivial" {
				nt = true
			}
		}
		raw, _ := json.Marshal(c)
		rec.Case(string(raw), nt, labels...)
		rec.Sample(func() interface{} {
			return map[string]interface{}{"program": string(c.Prog), "selectors": c.Sels, "files": c.Files, "stdin": c.Stdin, "-f": c.ProgFile, "-o": c.Out}
		})
		if msg != "" {
			rec.Pending("config", c, string(c.Prog), msg)
			rt.Fatalf("%s\nprogram:\n%s", msg, c.Prog)
		}
	})
}

type failingReader struct{}

func (failingReader) Read([]byte) (int, error) { return 0, fmt.Errorf("read: is a directory") }
