package props

import (
	"fmt"
	"strings"
	"testing"

	"verif/harness/ast"
	"verif/harness/ev"
	"verif/harness/run"
	"verif/harness/gen"
	"verif/harness/jsonx"

	"pgregory.net/rapid"
)

// C02 — rules run in awk order over every input shape, with $, $index and
// $file bound (DESIGN.md 4.1 is the oracle, implemented by refjq's driver).

type c02Cfg struct {
	allArrays    bool // every root of the configuration is an array ($index observable)
	rootReplaced bool // some BEGINFILE rule assigns $ (then $ is not observed in ENDFILE)
}

var c02Kinds = []string{"BEGIN", "END", "BEGINFILE", "ENDFILE", "pattern"}

func c02Doc(t *rapid.T) *jsonx.Val {
	o := gen.DocOpts{Depth: 1, MaxItems: 4, SafeStr: true, SmallNums: true, Keys: []string{"k", "n", "items"}}
	switch rapid.IntRange(0, 9).Draw(t, "rootshape") {
	case 0, 1, 2, 3, 4:
		// array of 0-4 elements (scalars, small objects, small arrays)
		n := rapid.IntRange(0, 4).Draw(t, "len")
		v := jsonx.VArr()
		for k := 0; k < n; k++ {
			v.Items = append(v.Items, gen.JSONDoc(o).Draw(t, "elem"))
		}
		return v
	case 5, 6:
		// object root; "items" often an array so that selectors find one
		v := jsonx.VObj()
		if rapid.Bool().Draw(t, "hask") {
			v.Members = append(v.Members, jsonx.Member{Key: "k", Val: gen.JSONScalar(o).Draw(t, "kval")})
		}
		if rapid.Bool().Draw(t, "hasitems") {
			v.Members = append(v.Members, jsonx.Member{Key: "items", Val: gen.JSONDoc(o).Draw(t, "items")})
		}
		return v
	default:
		return gen.JSONScalar(o).Draw(t, "scalarroot")
	}
}

func c02Pattern(t *rapid.T, cfg c02Cfg) *ast.Node {
	switch rapid.IntRange(0, 10).Draw(t, "patkind") {
	case 0, 1, 2:
		return nil
	case 10:
		// the pattern itself runs `next` (inside a function): the remaining rules for the
		// element are abandoned just as when a body runs it
		return ast.Call(ast.Id("gate"), c02Cond(t, "pattern", cfg), rapid.SampledFrom([]*ast.Node{ast.True(), ast.False(), ast.Num("1"), ast.Str("")}).Draw(t, "gateres").Clone())
	case 3, 4:
		// constants of every truthiness class
		return rapid.SampledFrom([]*ast.Node{
			ast.Num("1"), ast.Num("0"), ast.Str(""), ast.Str("0"), ast.Str("a"), ast.Null(), ast.True(), ast.False(),
			ast.Arr(), ast.Id("unsetvar"), ast.Un("-", ast.Num("0")), ast.Num("0.5"), ast.Regex("a"),
		}).Draw(t, "constpat").Clone()
	case 5:
		return ast.Bin(">", ast.Dollar(), ast.Num(fmt.Sprint(rapid.IntRange(0, 5).Draw(t, "thr"))))
	case 6:
		return ast.Bin("==", ast.Mem(ast.Dollar(), "k"), ast.Str(rapid.SampledFrom([]string{"x", "y", ""}).Draw(t, "kv")))
	case 7:
		if cfg.allArrays {
			return ast.Bin("==", ast.Bin("%", ast.Id("$index"), ast.Num("2")), ast.Num(fmt.Sprint(rapid.IntRange(0, 1).Draw(t, "par"))))
		}
		return ast.Is(ast.Dollar(), rapid.SampledFrom([]string{"number", "string", "object", "array", "null"}).Draw(t, "ty"))
	case 8:
		return ast.Is(ast.Dollar(), rapid.SampledFrom([]string{"number", "string", "object", "array", "null", "bool"}).Draw(t, "ty2"))
	default:
		return ast.Mem(ast.Dollar(), "k")
	}
}

func c02Cond(t *rapid.T, kind string, cfg c02Cfg) *ast.Node {
	switch kind {
	case "BEGIN", "END":
		return rapid.SampledFrom([]*ast.Node{ast.True(), ast.False(), ast.Num("1")}).Draw(t, "cond").Clone()
	}
	switch rapid.IntRange(0, 3).Draw(t, "condkind") {
	case 0:
		return ast.Is(ast.Dollar(), rapid.SampledFrom([]string{"number", "string", "object", "array", "null"}).Draw(t, "cty"))
	case 1:
		return ast.Bin("==", ast.Mem(ast.Dollar(), "k"), ast.Str("x"))
	case 2:
		return ast.Bin("==", ast.Id("$file"), ast.Str(rapid.SampledFrom([]string{"f0", "f1"}).Draw(t, "fname")))
	default:
		return ast.True()
	}
}

// c02Body builds the tracing body of a rule.
func c02Body(t *rapid.T, id, kind string, cfg c02Cfg, labels map[string]bool) *ast.Node {
	obs := []*ast.Node{ast.Str(id)}
	switch kind {
	case "BEGIN", "END":
		if rapid.Bool().Draw(t, "obsdollar") {
			obs = append(obs, ast.Dollar())
		}
	case "BEGINFILE":
		obs = append(obs, ast.Id("$file"), ast.Dollar())
	case "ENDFILE":
		obs = append(obs, ast.Id("$file"))
		if !cfg.rootReplaced {
			obs = append(obs, ast.Dollar())
		}
	case "pattern":
		obs = append(obs, ast.Id("$file"))
		if cfg.allArrays && rapid.Bool().Draw(t, "obsindex") {
			obs = append(obs, ast.Id("$index"))
			labels["observes-$index"] = true
		}
		obs = append(obs, ast.Dollar())
	}
	stmts := []*ast.Node{ast.Print(obs...)}
	if (kind == "BEGIN" || kind == "END") && rapid.IntRange(0, 3).Draw(t, "assigndollar") == 0 {
		// a BEGIN / END rule assigns $: the next BEGIN / END rule starts with $ null again
		stmts = append(stmts, ast.ExprS(ast.Set(ast.Dollar(), ast.Str("set-in-"+id))), ast.Print(ast.Str(id+"-set"), ast.Dollar()))
		labels["begin-or-end-rule-assigns-$"] = true
	}
	if kind == "pattern" && rapid.IntRange(0, 5).Draw(t, "writebinding") == 0 {
		// the program overwrites $index / $file: the next element (value) gets a fresh binding
		if cfg.allArrays && rapid.Bool().Draw(t, "writeindex") {
			stmts = append(stmts, ast.ExprS(ast.Asg("+=", ast.Id("$index"), ast.Num("100"))), ast.Print(ast.Str(id+"-idx"), ast.Id("$index")))
			labels["program-writes-$index"] = true
		} else {
			stmts = append(stmts, ast.ExprS(ast.Set(ast.Id("$file"), ast.Bin("+", ast.Id("$file"), ast.Str("!")))), ast.Print(ast.Str(id+"-file"), ast.Id("$file")))
			labels["program-writes-$file"] = true
		}
	}
	if (kind == "pattern" || kind == "BEGINFILE") && rapid.IntRange(0, 5).Draw(t, "mutateroot") == 0 {
		// the rule changes the selected root below its top level (no length changes): the
		// roots of other selectors, of other values and of other files are trees of their own
		mark := ast.Str("m-" + id)
		stmts = append(stmts,
			ast.If(ast.Is(ast.Dollar(), "object"), ast.Block(ast.ExprS(ast.Set(ast.Mem(ast.Dollar(), "k"), mark.Clone())),
				ast.If(ast.Bin("&&", ast.Is(ast.Mem(ast.Dollar(), "items"), "array"), ast.Bin(">", ast.Method(ast.Mem(ast.Dollar(), "items"), "length"), ast.Num("0"))),
					ast.Block(ast.ExprS(ast.Set(ast.Idx(ast.Mem(ast.Dollar(), "items"), ast.Num("0")), mark.Clone())))))),
			ast.If(ast.Bin("&&", ast.Is(ast.Dollar(), "array"), ast.Bin(">", ast.Method(ast.Dollar(), "length"), ast.Num("0"))),
				ast.Block(ast.ExprS(ast.Set(ast.Idx(ast.Dollar(), ast.Un("-", ast.Num("1"))), mark.Clone())))),
			ast.Print(ast.Str(id+"-mut"), ast.Dollar()))
		labels["rule-changes-the-root-below-top-level"] = true
	}
	if kind == "BEGINFILE" && cfg.rootReplaced && rapid.Bool().Draw(t, "assignroot") {
		// assigning $ in BEGINFILE replaces the root for the pattern rules that follow
		stmts = append(stmts, ast.ExprS(ast.Set(ast.Dollar(), c02Selector(t))), ast.Print(ast.Str(id+"-root"), ast.Dollar()))
		labels["beginfile-assigns-root"] = true
	}
	var tail *ast.Node
	switch rapid.IntRange(0, 9).Draw(t, "tail") {
	case 0, 1:
		if kind == "pattern" {
			tail = ast.Next()
			labels["has-next"] = true
		}
		// (next in a BEGIN / END / BEGINFILE / ENDFILE rule: the README says it "exits the rule
		// and processes no further rules for the current item"; whether the other rules of that
		// phase still run is not decided anywhere, so it is not generated - refjq: Unspecified)
	case 2:
		tail = ast.Exit()
		labels["has-exit-in-"+kind] = true
	}
	if tail != nil {
		if rapid.Bool().Draw(t, "guarded") {
			stmts = append(stmts, ast.If(c02Cond(t, kind, cfg), ast.Block(tail)))
			labels["guarded-control"] = true
		} else {
			stmts = append(stmts, tail)
		}
		if rapid.Bool().Draw(t, "after") {
			stmts = append(stmts, ast.Print(ast.Str(id+"-after")))
		}
	} else if rapid.IntRange(0, 3).Draw(t, "second") == 0 {
		stmts = append(stmts, ast.Print(ast.Str(id+"-2")))
	}
	return ast.Block(stmts...)
}

func c02Selector(t *rapid.T) *ast.Node {
	return rapid.SampledFrom([]*ast.Node{
		ast.Dollar(), ast.Mem(ast.Dollar(), "k"), ast.Mem(ast.Dollar(), "items"), ast.Idx(ast.Dollar(), ast.Num("0")),
		ast.Mem(ast.Dollar(), "missing"), ast.Idx(ast.Dollar(), ast.Un("-", ast.Num("1"))),
	}).Draw(t, "selector").Clone()
}

func genC02(t *rapid.T) (*DCase, map[string]bool) {
	labels := map[string]bool{}
	c := &DCase{}
	// configuration
	nfiles := rapid.IntRange(1, 3).Draw(t, "nfiles")
	total := 0
	allArrays := true
	nsel := rapid.SampledFrom([]int{0, 0, 0, 1, 2}).Draw(t, "nsel")
	for f := 0; f < nfiles; f++ {
		df := DFile{Name: fmt.Sprintf("f%d", f)}
		nv := rapid.IntRange(0, 3).Draw(t, "nvalues")
		for k := 0; k < nv; k++ {
			d := c02Doc(t)
			if d.K != jsonx.Arr {
				allArrays = false
			}
			if d.K == jsonx.Arr && len(d.Items) == 0 {
				labels["empty-array-root"] = true
			}
			if d.K != jsonx.Arr {
				labels["non-array-root"] = true
			}
			df.Docs = append(df.Docs, gen.Compact(d))
			total++
		}
		c.Files = append(c.Files, df)
	}
	for k := 0; k < nsel; k++ {
		c.Sel = append(c.Sel, c02Selector(t))
	}
	if nsel > 0 {
		allArrays = false // selected roots are data dependent
		labels["selectors"] = true
		if nsel > 1 {
			labels["multi-selector"] = true
		}
	}
	if nfiles > 1 {
		labels["multi-file"] = true
	}
	cfg := c02Cfg{allArrays: allArrays}
	if rapid.IntRange(0, 4).Draw(t, "rootreplaced") == 0 {
		cfg.rootReplaced = true
		cfg.allArrays = false
	}

	// rules
	nrules := rapid.IntRange(1, 8).Draw(t, "nrules")
	if rapid.IntRange(0, 9).Draw(t, "manyrules") == 0 {
		// beyond every small-size special case of sorting or grouping the rules
		nrules = rapid.IntRange(13, 40).Draw(t, "nrulesmany")
		labels["more-than-12-rules"] = true
	}
	counts := map[string]int{}
	var items []*ast.Node
	for k := 0; k < nrules; k++ {
		kind := rapid.SampledFrom(c02Kinds).Draw(t, "rulekind")
		if kind != "pattern" && counts[kind] >= 3 {
			kind = "pattern"
		}
		counts[kind]++
		id := fmt.Sprintf("R%d", k)
		if kind == "pattern" {
			pat := c02Pattern(t, cfg)
			if pat != nil && rapid.IntRange(0, 5).Draw(t, "bodiless") == 0 {
				items = append(items, ast.Rule("pattern", pat, nil))
				labels["bodiless-rule"] = true
				continue
			}
			items = append(items, ast.Rule("pattern", pat, c02Body(t, id, kind, cfg, labels)))
		} else {
			items = append(items, ast.Rule(kind, nil, c02Body(t, id, kind, cfg, labels)))
		}
	}
	// a bodiless pattern rule must be followed by a keyword-led rule or the end
	// (otherwise the next rule's first token would continue its pattern)
	for k := 0; k < len(items)-1; k++ {
		if items[k].C[1] == nil {
			nx := items[k+1]
			if string(nx.S) == "pattern" {
				// give the next pattern rule a keyword start by making it a BEGINFILE-free
				// plain rule: insert a harmless END rule between them
				pad := ast.Rule("END", nil, ast.Block(ast.Print(ast.Str(fmt.Sprintf("P%d", k)))))
				items = append(items[:k+1], append([]*ast.Node{pad}, items[k+1:]...)...)
				counts["END"]++
			}
		}
	}
	usesGate := false
	for _, it := range items {
		it.Walk(func(n *ast.Node) {
			if n.K == "id" && string(n.S) == "gate" {
				usesGate = true
			}
		})
	}
	if usesGate {
		labels["next-inside-a-pattern"] = true
		items = append(items, ast.Func("gate", []string{"c", "r"}, ast.Block(ast.If(ast.Id("c"), ast.Block(ast.Next())), ast.Return(ast.Id("r")))))
	}
	c.Prog = ast.Prog(items...)
	kindsPresent, multi := 0, false
	for _, k := range c02Kinds {
		if counts[k] > 0 {
			kindsPresent++
		}
		if counts[k] >= 2 {
			multi = true
		}
	}
	if kindsPresent >= 2 && multi && total >= 2 {
		labels["nontrivial"] = true
	}
	return c, labels
}

func TestC02(t *testing.T) {
	rec := start(t, "C02", "exploration",
		"tracing programs: 1-8 rules drawn from the five kinds in random order (up to 3 of each special kind), each body printing its id and the observables $file / $ / $index, optionally followed by next / exit (bare or guarded by a data condition) and a further print; BEGINFILE rules may assign $ (replacing the root for the pattern rules); patterns absent, constants of every truthiness class, or data conditions; bodiless pattern rules; now and then 13-40 rules; fixed long inputs (1000 to 140000 elements in 1 or 7 values, with next taken on every / every other / every third element, directly and inside a function: direct oracle); 1-3 files x 0-3 JSON values per file x 0-2 selectors x root shapes (arrays of 0-4 elements, objects, scalars, null). Expected trace from refjq's rule driver (DESIGN.md 4.1). Non-trivial: >= 2 rule kinds, some kind with >= 2 rules, >= 2 input values. distinct = distinct (program, selectors, input).")
	defer rec.Finish()
	rec.Assume("refjq's driver is the documented schedule (DESIGN.md 4.1); object key order in printed values is accepted in any order")
	rec.Replayer("schedule", replayDiff(false))
	if rec.ReplayOnly() {
		return
	}
	rec.ReplayTier()
	shard, nshards := ev.Shard()

	// long inputs: next, exit-free rules and skipped rules over tens of thousands of elements,
	// values and files behave on the last element as on the first (direct oracle)
	if shard == 0 {
		type longCase struct {
			Prog string `json:"prog"`
			N    int    `json:"n"`
			Docs int    `json:"docs"`
		}
		progs := []string{
			`{ n++ ; next } { print "unreachable" } END { print n }`,
			"{ if ($ % 2 == 0) { next }\nodd++ } { seen++ } END { print odd, seen }",
			"function skip(v) { if (v % 3 == 0) { next }\nreturn v } { kept += skip($) * 0 + 1 } $ % 3 == 0 { print \"unreachable\" } END { print kept }",
			`$ < 0 { print "never" } { c++ } END { print c }`,
		}
		for _, src := range progs {
			for _, n := range []int{1000, 40000, 70000, 140000} {
				for _, docs := range []int{1, 7} {
					var sb strings.Builder
					per := n / docs
					total := 0
					for d := 0; d < docs; d++ {
						sb.WriteString("[")
						for k := 0; k < per; k++ {
							if k > 0 {
								sb.WriteString(",")
							}
							fmt.Fprint(&sb, total)
							total++
						}
						sb.WriteString("]\n")
					}
					o := run.InProc(src, []run.InFile{{Name: "f", Data: []byte(sb.String())}}, nil, run.Opts{Budget: 200_000_000})
					var want string
					switch src {
					case progs[0]:
						want = fmt.Sprintf("%d\n", total)
					case progs[1]:
						want = fmt.Sprintf("%d %d\n", total/2, total/2)
					case progs[2]:
						want = fmt.Sprintf("%d\n", total-(total+2)/3)
					default:
						want = fmt.Sprintf("%d\n", total)
					}
					rec.Case(fmt.Sprintf("long %q %d %d", src, n, docs), n >= 40000, "long-input")
					if o.Class != "ok" || string(o.Stdout) != want {
						rec.Violation("long-input", longCase{src, n, docs}, src, fmt.Sprintf("%d elements in %d value(s): outcome %s (%s), output %q, expected %q", total, docs, o.Class, o.Msg, clip(string(o.Stdout)), want))
					}
				}
			}
		}
	}

	// exhaustive small scope: every ordered choice of <= 3 rules from the five
	// kinds x {exit in rule j | next in rule j | none} x 3 fixed configurations
	cfgs := [][]DFile{
		{{Name: "f0", Docs: []string{`[1,2,3]`}}},
		{{Name: "f0", Docs: []string{`[1,2]`, `{"k":"x"}`}}, {Name: "f1", Docs: []string{`[]`, `5`}}},
		{{Name: "f0", Docs: nil}, {Name: "f1", Docs: []string{`["a"]`}}},
	}
	count := 0
	var enum func(kinds []string)
	enum = func(kinds []string) {
		if len(kinds) > 0 {
			for ctl := -1; ctl < 2*len(kinds); ctl++ {
				count++
				if count%nshards != shard || rec.ViolationCount() >= 5 {
					continue
				}
				var items []*ast.Node
				ok := true
				for k, kind := range kinds {
					id := fmt.Sprintf("R%d", k)
					obs := []*ast.Node{ast.Str(id)}
					if kind != "BEGIN" && kind != "END" {
						obs = append(obs, ast.Id("$file"))
					}
					obs = append(obs, ast.Dollar())
					stmts := []*ast.Node{ast.Print(obs...)}
					if ctl == 2*k {
						stmts = append(stmts, ast.Exit())
					}
					if ctl == 2*k+1 {
						if kind != "pattern" {
							ok = false
						}
						stmts = append(stmts, ast.Next())
					}
					stmts = append(stmts, ast.Print(ast.Str(id+"-after")))
					items = append(items, ast.Rule(kind, nil, ast.Block(stmts...)))
				}
				if !ok {
					continue
				}
				for ci, files := range cfgs {
					c := &DCase{Prog: ast.Prog(items...), Files: files, Tag: fmt.Sprintf("enum %v ctl=%d cfg=%d", kinds, ctl, ci)}
					d := runDiff(rec, nil, "schedule", c, false, func(*diffResult) bool { return len(kinds) >= 2 }, "enumerated")
					if d.Verdict == "fail" {
						rec.Violation("schedule", c, d.Src, d.Reason)
					}
				}
			}
		}
		if len(kinds) < 3 {
			for _, k := range c02Kinds {
				enum(append(append([]string{}, kinds...), k))
			}
		}
	}
	enum(nil)
	rec.Exhaustive("every ordered choice of <= 3 rules from the five kinds x {exit in rule j | next in pattern rule j | none} x 3 fixed configurations")

	check(rec, "schedule-random", scale(20000, 10000000), func(rt *rapid.T) {
		c, labels := genC02(rt)
		var ls []string
		for l := range labels {
			ls = append(ls, l)
		}
		runDiff(rec, rt, "schedule", c, false, func(*diffResult) bool { return labels["nontrivial"] }, ls...)
	})
}
