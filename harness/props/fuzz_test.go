package props

import (
	"crypto/sha256"
	"encoding/hex"
	"encoding/json"
	"fmt"
	"os"
	"path/filepath"
	"strings"
	"testing"

	"verif/harness/ast"
	"verif/harness/ev"
	"verif/harness/gen"
	"verif/harness/run"

	"pgregory.net/rapid"
)

// Native coverage-guided fuzz targets (thorough tier). The semantic oracle sits
// inside each target; a failing input is written as an ordinary replay file to
// the found/ directory, so that it can be re-run without the fuzzer
// (./check CXX --replay F).

func fuzzViolation(prop, check string, c interface{}, program, explain string) string {
	raw, _ := json.Marshal(c)
	rp := ev.Replay{Property: prop, Check: check, Explain: explain, Program: program, Case: raw, Tier: "thorough-native-fuzz"}
	sum := sha256.Sum256(raw)
	dir := os.Getenv("VERIF_FOUND_DIR")
	if dir == "" {
		dir = filepath.Join(ev.Root(), "found")
	}
	os.MkdirAll(dir, 0o755)
	path := filepath.Join(dir, fmt.Sprintf("%s-fuzz-%s.json", prop, hex.EncodeToString(sum[:6])))
	data, _ := json.MarshalIndent(rp, "", " ")
	os.WriteFile(path, append(data, '\n'), 0o644)
	return path
}

// corpus programs: renderings from the structured generators (the stock seeds of
// the repository never assemble keyword-level structure such as `BEGIN { next }`)
func fuzzCorpusPrograms(n int) []string {
	var out []string
	g1 := rapid.Custom(func(t *rapid.T) string {
		c, _ := genC01G1(t)
		return string(c.Prog)
	})
	for i := 0; i < n; i++ {
		out = append(out, g1.Example(i))
	}
	for _, c := range c01G2() {
		out = append(out, string(c.Prog))
	}
	for _, h := range c01Hostile() {
		if len(h) < 4000 {
			out = append(out, h)
		}
	}
	return out
}

func FuzzC01(f *testing.F) {
	for i, p := range fuzzCorpusPrograms(300) {
		sel := ""
		if i%7 == 0 {
			sel = c01Selectors[i%len(c01Selectors)]
		}
		f.Add(p, sel, c01Inputs[i%len(c01Inputs)])
	}
	f.Fuzz(func(t *testing.T, prog, sel, input string) {
		if len(prog) > 65536 || len(sel) > 4096 || len(input) > 65536 {
			return
		}
		c := &C01Case{Prog: ast.BS(prog), Input: []ast.BS{ast.BS(input)}, Gen: "native fuzz"}
		if sel != "" {
			c.Sels = []ast.BS{ast.BS(sel)}
		}
		if msg, _ := c01Check(c); msg != "" {
			path := fuzzViolation("C01", "outcome", c, prog, msg)
			t.Fatalf("VIOLATION-FILE %s\n%s", path, msg)
		}
	})
}

func FuzzC12(f *testing.F) {
	for _, p := range fuzzCorpusPrograms(200) {
		f.Add(p)
	}
	f.Fuzz(func(t *testing.T, prog string) {
		if len(prog) > 65536 {
			return
		}
		o := run.InProc(prog, []run.InFile{{Name: "in", Data: []byte(`[1,{"a":2}]`)}}, nil, run.Opts{Budget: c01Budget})
		if msg := c12Universal(prog, o); msg != "" {
			c := &C12Case{Src: ast.BS(prog), Class: o.Class, Fault: "universal invariant (native fuzz)"}
			path := fuzzViolation("C12", "universal", c, prog, msg)
			t.Fatalf("VIOLATION-FILE %s\n%s", path, msg)
		}
	})
}

// FuzzC13 lets the fuzzer choose the bitstream that drives the layout generator.
func FuzzC13(f *testing.F) {
	f.Fuzz(rapid.MakeFuzz(func(rt *rapid.T) {
		base, _ := c13Base(rt)
		r := ast.Render(base.Prog, ast.Full)
		c := &C13Case{Base: base}
		for k := 0; k < 3; k++ {
			c.Layouts = append(c.Layouts, ast.BS(r.Join(gen.NewRandLayout(rt)).Src))
		}
		if msg := c13Check(c); msg != "" {
			path := fuzzViolation("C13", "layout", c, string(c.Layouts[0]), msg)
			rt.Fatalf("VIOLATION-FILE %s\n%s", path, msg)
		}
	}))
}

// keep the helper referenced even when a target is compiled out
var _ = strings.Contains
