package props

import (
	"encoding/json"
	"fmt"
	"math"
	"math/big"
	"strings"
	"testing"
	"unicode/utf8"

	"verif/harness/ast"
	"verif/harness/gen"
	"verif/harness/jsonx"
	"verif/harness/ref"
	"verif/harness/run"

	"pgregory.net/rapid"
)

// C16 — string, number, object methods and num()/json() honour their
// documented contract (DESIGN.md 4.8). The contracts are checked with direct,
// independent oracles (laws and exact arithmetic); wrong-kind receivers and
// argument lists are checked against refjq and for "value or runtime error".

type C16Case struct {
	Family string   `json:"family"`
	S      string   `json:"s,omitempty"`
	Sep    string   `json:"sep,omitempty"`
	Bits   uint64   `json:"bits,omitempty"`
	Obj    string   `json:"obj,omitempty"`  // JSON text of the receiver object
	Keys   []string `json:"keys,omitempty"` // JSON texts of the pluck arguments
}

func runJSON(prog string, doc string) (run.Outcome, []*jsonx.Val, string) {
	o := run.InProc(prog, []run.InFile{{Name: "in", Data: []byte(doc)}}, nil, run.Opts{Budget: implBudget})
	if o.Class != "ok" {
		return o, nil, fmt.Sprintf("outcome %s: %s%s", o.Class, o.Msg, o.Panic)
	}
	// the program prints JSON texts, one json() result per print (pretty-printed, so
	// they are separated by parsing value after value)
	var vals []*jsonx.Val
	rest := string(o.Stdout)
	for strings.TrimSpace(rest) != "" {
		v, end, err := jsonx.ParsePrefix(rest)
		if err != nil {
			return o, nil, fmt.Sprintf("output is not JSON: %v: %q", err, clip(rest))
		}
		vals = append(vals, v)
		rest = rest[end:]
	}
	return o, vals, ""
}

func docOf(members ...string) string { return "{" + strings.Join(members, ",") + "}" }

func c16Check(c *C16Case) string {
	switch c.Family {
	case "kindswitch":
		var prog string
		switch c.Keys[0] {
		case "forin":
			prog = `{ for (v in $) print v.length() }`
		case "reassign":
			prog = `{ for (i = 0; i < $.length(); i++) { v = $[i]; print v.length() } }`
		case "param":
			prog = `function ln(p) { return p.length() } { for (i = 0; i < $.length(); i++) print ln($[i]) }`
		default:
			prog = `{ h = {cur: 0}; for (i = 0; i < $.length(); i++) { h.cur = $[i]; print h.cur.length() } }`
		}
		o := run.InProc("BEGINFILE { $ = [$] }\n"+prog, []run.InFile{{Name: "in", Data: []byte(c.S)}}, nil, run.Opts{Budget: implBudget})
		want := strings.ReplaceAll(c.Sep, " ", "\n") + "\n"
		if o.Class != "ok" || string(o.Stdout) != want {
			return fmt.Sprintf("length() through one name (%s) over the values %s: outcome %s %s, lengths %q, want %q", c.Keys[0], c.S, o.Class, o.Msg, strings.ReplaceAll(string(o.Stdout), "\n", " "), c.Sep)
		}
		return ""
	case "bigsplit":
		// a receiver holding the separator tens of thousands of times (taken from the document)
		n := 0
		fmt.Sscan(c.Keys[0], &n)
		text := strings.Repeat(c.S+c.Sep, n)
		prog := "{ s = $.s ; sep = $.sep ; p = s.split(sep) ; bytes = 0 ; long = 0\n" +
			"for (x in p) { bytes = bytes + x.length() ; if (x.length() > " + fmt.Sprint(len(c.S)) + ") { long++ } }\n" +
			"print p.length(), bytes, long, p[0], p[p.length() - 2], p[-1].length() }"
		o := run.InProc(prog, []run.InFile{{Name: "in", Data: []byte(docOf(`"s":`+gen.JSONString(text), `"sep":`+gen.JSONString(c.Sep)))}}, nil, run.Opts{Budget: 2_000_000_000})
		want := fmt.Sprintf("%d %d 0 %s %s 0\n", n+1, n*len(c.S), c.S, c.S)
		if o.Class != "ok" || string(o.Stdout) != want {
			return fmt.Sprintf("(%q + %q) x %d split at %q: outcome %s %s, pieces / piece bytes / pieces longer than %q / first / last but one / length of last: got %q, want %q", c.S, c.Sep, n, c.Sep, o.Class, o.Msg, c.S, clip(string(o.Stdout)), want)
		}
		return ""
	case "rawsplit":
		// observed through lengths and an in-program re-join (JSON cannot carry the bytes)
		prog := "BEGIN { s = \"" + c.S + "\"; sep = \"" + c.Sep + "\"; p = s.split(sep); j = \"\"; n = 0\n" +
			"for (x, i in p) { if (i > 0) j = j + sep; j = j + x; n = n + x.length() }\n" +
			"print p.length(), n, j == s, s.length() }"
		o := run.InProc(prog, nil, nil, run.Opts{Budget: implBudget})
		if o.Class != "ok" {
			return fmt.Sprintf("%q.split(%q): outcome %s (%s%s)", c.S, c.Sep, o.Class, o.Msg, o.Panic)
		}
		want := strings.Split(c.S, c.Sep)
		total := 0
		for _, w := range want {
			total += len(w)
		}
		exp := fmt.Sprintf("%d %d true %d\n", len(want), total, len(c.S))
		if c.S == "" && c.Sep == "" {
			return "" // the pieces of the empty string under the empty separator: not asserted
		}
		if string(o.Stdout) != exp {
			return fmt.Sprintf("%q.split(%q): pieces / total piece bytes / pieces joined with the separator == receiver / receiver bytes: got %q, want %q", c.S, c.Sep, o.Stdout, exp)
		}
		return ""
	case "string":
		doc := docOf(`"s":`+gen.JSONString(c.S), `"sep":`+gen.JSONString(c.Sep))
		// (an earlier result of the same split is modified first: every call builds its own result)
		prog := `{ p = $.s.split($.sep); p[0] = "Y" + p[0]; p.push("Z"); u = $.s.upper(); u = u + "!"
print json([$.s.length(), $.s.upper(), $.s.lower(), $.s.upper().upper(), $.s.lower().lower(), $.s.split($.sep), $.s])
print $.s.length(), $.sep.length(), $.s.length() - $.sep.length(), ({a: 1, b: 2}).length() - ({}).length() }`
		_, vals, msg := runJSON(prog, doc)
		if msg != "" {
			return msg
		}
		if len(vals) != 5 || vals[0].K != jsonx.Arr || len(vals[0].Items) != 7 {
			return "unexpected output shape"
		}
		// two results of length() that are alive at the same time are two numbers
		for k, want := range []int{len(c.S), len(c.Sep), len(c.S) - len(c.Sep), 2} {
			if vals[1+k].K != jsonx.Num || vals[1+k].N != float64(want) {
				return fmt.Sprintf("print s.length(), sep.length(), s.length() - sep.length(), {a, b}.length() - {}.length() for s = %q, sep = %q: value %d is %s, want %d", c.S, c.Sep, k+1, jsonx.Compact(vals[1+k]), want)
			}
		}
		it := vals[0].Items
		if it[0].K != jsonx.Num || it[0].N != float64(len(c.S)) {
			return fmt.Sprintf("length() of %q is %s, want the byte count %d", c.S, jsonx.Compact(it[0]), len(c.S))
		}
		up, lo := it[1], it[2]
		if up.K != jsonx.Str || lo.K != jsonx.Str {
			return "upper()/lower() did not return strings"
		}
		if up.S != strings.ToUpper(c.S) || lo.S != strings.ToLower(c.S) {
			return fmt.Sprintf("case mapping of %q: upper %q lower %q", c.S, up.S, lo.S)
		}
		// independent ASCII table
		for k := 0; k < len(c.S); k++ {
			b := c.S[k]
			if b < 0x80 {
				// ASCII bytes map in place only when the whole string is ASCII
				continue
			}
		}
		if isASCII(c.S) {
			for k := 0; k < len(c.S); k++ {
				b := c.S[k]
				wu, wl := b, b
				if b >= 'a' && b <= 'z' {
					wu = b - 32
				}
				if b >= 'A' && b <= 'Z' {
					wl = b + 32
				}
				if len(up.S) != len(c.S) || up.S[k] != wu || lo.S[k] != wl {
					return fmt.Sprintf("ASCII case mapping of %q: upper %q lower %q", c.S, up.S, lo.S)
				}
			}
		}
		if it[3].S != up.S || it[4].S != lo.S {
			return fmt.Sprintf("upper/lower are not idempotent on %q", c.S)
		}
		if it[6].K != jsonx.Str || it[6].S != c.S {
			return fmt.Sprintf("the receiver %q changed to %s", c.S, jsonx.Compact(it[6]))
		}
		// split
		sp := it[5]
		if sp.K != jsonx.Arr {
			return "split() did not return an array"
		}
		var pieces []string
		for _, p := range sp.Items {
			if p.K != jsonx.Str {
				return "split() returned a non-string piece"
			}
			pieces = append(pieces, p.S)
		}
		if c.Sep != "" {
			for _, p := range pieces {
				if strings.Contains(p, c.Sep) {
					return fmt.Sprintf("%q.split(%q): piece %q contains the separator", c.S, c.Sep, p)
				}
			}
			if strings.Join(pieces, c.Sep) != c.S {
				return fmt.Sprintf("%q.split(%q) = %q does not join back to the string", c.S, c.Sep, pieces)
			}
			want := ref.GreedySplit(c.S, c.Sep)
			if fmt.Sprint(want) != fmt.Sprint(pieces) || len(want) != len(pieces) {
				return fmt.Sprintf("%q.split(%q) = %q, greedy left-to-right split is %q", c.S, c.Sep, pieces, want)
			}
		} else {
			var want []string
			for _, r := range c.S {
				want = append(want, string(r))
			}
			if len(want) != len(pieces) {
				return fmt.Sprintf("%q.split(\"\") = %q, want the %d characters", c.S, pieces, len(want))
			}
			for k := range want {
				if want[k] != pieces[k] {
					return fmt.Sprintf("%q.split(\"\") = %q, want the characters %q", c.S, pieces, want)
				}
			}
		}
		return ""
	case "number":
		x := math.Float64frombits(c.Bits)
		prog := `{ print json([$.floor(), $.ceil(), $.round(), $]) }`
		_, vals, msg := runJSON(prog, gen.NumText(x))
		if msg != "" {
			return msg
		}
		if len(vals) != 1 || vals[0].K != jsonx.Arr || len(vals[0].Items) != 4 {
			return "unexpected output shape"
		}
		rx := new(big.Rat).SetFloat64(x)
		half := big.NewRat(1, 2)
		one := big.NewRat(1, 1)
		names := []string{"floor", "ceil", "round"}
		for k, name := range names {
			v := vals[0].Items[k]
			if v.K != jsonx.Num {
				return fmt.Sprintf("%v.%s() is %s", x, name, jsonx.Compact(v))
			}
			r := new(big.Rat).SetFloat64(v.N)
			if !r.IsInt() {
				return fmt.Sprintf("%v.%s() = %v is not integral", x, name, v.N)
			}
			d := new(big.Rat).Sub(rx, r) // x - r
			switch name {
			case "floor":
				if d.Sign() < 0 || d.Cmp(one) >= 0 {
					return fmt.Sprintf("%v.floor() = %v", x, v.N)
				}
			case "ceil":
				if d.Sign() > 0 || new(big.Rat).Neg(d).Cmp(one) >= 0 {
					return fmt.Sprintf("%v.ceil() = %v", x, v.N)
				}
			case "round":
				ad := new(big.Rat).Abs(d)
				if ad.Cmp(half) > 0 {
					return fmt.Sprintf("%v.round() = %v is not the nearest integer", x, v.N)
				}
				if ad.Cmp(half) == 0 && new(big.Rat).Abs(r).Cmp(new(big.Rat).Abs(rx)) < 0 {
					return fmt.Sprintf("%v.round() = %v: a half must round away from zero", x, v.N)
				}
			}
		}
		if vals[0].Items[3].K != jsonx.Num || vals[0].Items[3].N != x {
			return "the receiver changed"
		}
		return ""
	case "pluck":
		var args []string
		for _, k := range c.Keys {
			args = append(args, k)
		}
		recv, err := jsonx.Parse(c.Obj)
		if err != nil {
			return "harness: " + err.Error()
		}
		if recv.Get("pluck") != nil {
			return "" // an own key named pluck shadows the method: nothing to call
		}
		lengthCall := `$.o.length()`
		if recv.Get("length") != nil {
			// an own key named length shadows the method; count keys another way
			lengthCall = fmt.Sprint(len(recv.Keys()))
		}
		// the copy and the original are independent: a store through one is invisible through the other
		indep := ""
		if len(c.Keys) > 0 && !strings.Contains(c.Keys[0], "length") && !strings.Contains(c.Keys[0], "pluck") {
			// (a key that names a method reads as the method when the object lacks it)
			k0 := c.Keys[0]
			// the members of one result are places of their own: a store into one leaves the others alone
			indep = `; r = $.o.pluck(` + strings.Join(args, ", ") + `); r[` + k0 + `] = "changed-in-result"; print json(r)` +
				`; p = $.o.pluck(` + k0 + `); p[` + k0 + `] = "changed-in-copy"; print json([$.o[` + k0 + `]])` +
				`; q = $.o.pluck(` + k0 + `); $.o[` + k0 + `] = "changed-in-original"; print json([q[` + k0 + `]])`
		}
		prog := `{ print json($.o.pluck(` + strings.Join(args, ", ") + `)); print json($.o); print json(` + lengthCall + `)` + indep + ` }`
		_, vals, msg := runJSON(prog, docOf(`"o":`+c.Obj))
		if msg != "" {
			return msg
		}
		if len(vals) != 3 && len(vals) != 6 {
			return "unexpected output shape"
		}
		if len(vals) == 6 {
			kv, _ := jsonx.Parse(c.Keys[0])
			ks := kv.S
			if kv.K == jsonx.Num {
				ks = ref.Dec(kv.N)
			}
			orig := recv.Get(ks)
			if orig == nil {
				orig = jsonx.VNull()
			}
			for i, what := range []string{"a store into the plucked copy changed the original", "a store into the original changed the plucked copy"} {
				got := vals[4+i]
				if got.K != jsonx.Arr || len(got.Items) != 1 || !jsonx.Equal(got.Items[0], orig) {
					return fmt.Sprintf("%s: member %s is now %s, was %s", what, c.Keys[0], jsonx.Compact(got), jsonx.Compact(orig))
				}
			}
		}
		want := jsonx.VObj()
		for _, k := range c.Keys {
			kv, _ := jsonx.Parse(k)
			var ks string
			if kv.K == jsonx.Str {
				ks = kv.S
			} else {
				ks = ref.Dec(kv.N)
			}
			val := recv.Get(ks)
			if val == nil {
				val = jsonx.VNull()
			}
			if want.Get(ks) == nil {
				want.Members = append(want.Members, jsonx.Member{Key: ks, Val: val})
			}
		}
		if !jsonx.Equal(vals[0], want) {
			return fmt.Sprintf("%s.pluck(%s) = %s, want %s", c.Obj, strings.Join(args, ", "), jsonx.Compact(vals[0]), jsonx.Compact(want))
		}
		if len(vals) == 6 {
			after := jsonx.VObj()
			for i, m := range want.Members {
				if i == 0 {
					after.Members = append(after.Members, jsonx.Member{Key: m.Key, Val: jsonx.VStr("changed-in-result")})
				} else {
					after.Members = append(after.Members, m)
				}
			}
			if !jsonx.Equal(vals[3], after) {
				return fmt.Sprintf("after a store into member %s of %s.pluck(%s) the result is %s, want %s", c.Keys[0], c.Obj, strings.Join(args, ", "), jsonx.Compact(vals[3]), jsonx.Compact(after))
			}
		}
		if !jsonx.Equal(vals[1], recv) {
			return fmt.Sprintf("pluck changed its receiver: %s -> %s", jsonx.Compact(recv), jsonx.Compact(vals[1]))
		}
		if vals[2].K != jsonx.Num || vals[2].N != float64(len(recv.Keys())) {
			return fmt.Sprintf("length() of %s is %s", c.Obj, jsonx.Compact(vals[2]))
		}
		return ""
	case "num":
		prog := `{ print json([num($.s)]) }`
		o, vals, msg := runJSON(prog, docOf(`"s":`+gen.JSONString(c.S)))
		if cls, _ := ref.ClassifyNumeric(c.S); cls == ref.StrExotic {
			// exotic numeric strings are not asserted; only "no crash"
			if o.Class == "panic" || o.Class == "other" {
				return "num(" + c.S + "): " + o.Class + " " + o.Panic + o.Msg
			}
			return ""
		}
		if msg != "" {
			return msg
		}
		if len(vals) != 1 || vals[0].K != jsonx.Arr || len(vals[0].Items) != 1 {
			return "unexpected output shape"
		}
		got := vals[0].Items[0]
		cls, _ := ref.ClassifyNumeric(c.S)
		switch cls {
		case ref.StrNumeric:
			want, _ := jsonx.NearestDouble(c.S)
			if got.K != jsonx.Num || got.N != want {
				return fmt.Sprintf("num(%q) = %s, want %v", c.S, jsonx.Compact(got), want)
			}
		case ref.StrNonNumeric:
			if got.K != jsonx.Null {
				return fmt.Sprintf("num(%q) = %s, want null", c.S, jsonx.Compact(got))
			}
		}
		return ""
	}
	return "unknown family"
}

func isASCII(s string) bool {
	for k := 0; k < len(s); k++ {
		if s[k] >= 0x80 {
			return false
		}
	}
	return true
}

func c16String() *rapid.Generator[string] {
	return rapid.Custom(func(t *rapid.T) string {
		switch rapid.IntRange(0, 4).Draw(t, "strkind") {
		case 0:
			return rapid.StringOfN(rapid.RuneFrom([]rune("ab,")), 0, 8, -1).Draw(t, "ab")
		case 1:
			return rapid.StringOfN(rapid.RuneFrom([]rune("aAzZéÉßİıǅ日ω,; \n")), 0, 8, -1).Draw(t, "cased")
		case 2:
			return gen.JSONStringContent().Draw(t, "any")
		case 3:
			return rapid.SampledFrom([]string{"", "aaa", "a,b,,c", ",a,", ",,", "aXbXc", "日本語", "é", "aaaa", "abab"}).Draw(t, "fixed")
		default:
			return rapid.StringN(0, 10, -1).Draw(t, "unicode")
		}
	})
}

func genC16(t *rapid.T) (*C16Case, []string) {
	fam := rapid.SampledFrom([]string{"string", "string", "number", "number", "pluck", "num", "rawsplit", "kindswitch"}).Draw(t, "family")
	c := &C16Case{Family: fam}
	var labels []string
	switch fam {
	case "kindswitch":
		// length() looked up again and again through one name whose value changes kind
		n := rapid.IntRange(2, 6).Draw(t, "nkinds")
		var lits, lens []string
		for k := 0; k < n; k++ {
			size := rapid.IntRange(0, 4).Draw(t, "ksize")
			switch rapid.IntRange(0, 2).Draw(t, "kkind") {
			case 0:
				str := rapid.SampledFrom([]string{"", "a", "héllo", "日本", "abcd"}).Draw(t, "kstr")
				lits = append(lits, gen.JSONString(str))
				lens = append(lens, fmt.Sprint(len(str)))
			case 1:
				lits = append(lits, "["+strings.TrimSuffix(strings.Repeat("0,", size), ",")+"]")
				lens = append(lens, fmt.Sprint(size))
			default:
				var kv []string
				for j := 0; j < size; j++ {
					kv = append(kv, fmt.Sprintf("\"k%d\":%d", j, j))
				}
				lits = append(lits, "{"+strings.Join(kv, ",")+"}")
				lens = append(lens, fmt.Sprint(size))
			}
		}
		c.S = "[" + strings.Join(lits, ",") + "]"
		c.Sep = strings.Join(lens, " ")
		c.Keys = []string{rapid.SampledFrom([]string{"forin", "reassign", "param", "element"}).Draw(t, "kform")}
		labels = append(labels, "nontrivial")
	case "rawsplit":
		// any bytes (also bytes that are not UTF-8) as a string literal of the program
		n := rapid.IntRange(0, 7).Draw(t, "rawlen")
		b := make([]byte, n)
		for k := range b {
			ch := rapid.SampledFrom([]byte{'a', 'b', ',', 0xff, 0xc3, 0xa9, 0xe6, 0x97, 0xa5, 0x80, 0xf0, ' ', 'Z'}).Draw(t, "rawbyte")
			b[k] = ch
		}
		c.S = string(b)
		c.Sep = rapid.SampledFrom([]string{"", "", ",", "a", "\xff", "\xc3"}).Draw(t, "rawsep")
		if !utf8.ValidString(c.S) {
			labels = append(labels, "invalid-utf8-receiver", "nontrivial")
		}
	case "string":
		c.S = c16String().Draw(t, "s")
		switch rapid.IntRange(0, 5).Draw(t, "sepkind") {
		case 0:
			c.Sep = ""
			labels = append(labels, "empty-separator")
		case 1:
			c.Sep = ","
		case 2:
			c.Sep = rapid.SampledFrom([]string{"a", "aa", "ab", "X", "日", ",,"}).Draw(t, "sep")
		case 3:
			c.Sep = c.S
			labels = append(labels, "separator-equals-string")
		case 4:
			// a substring of s (so that it occurs)
			if len(c.S) > 0 {
				rs := []rune(c.S)
				a := rapid.IntRange(0, len(rs)-1).Draw(t, "from")
				b := rapid.IntRange(a+1, len(rs)).Draw(t, "to")
				c.Sep = string(rs[a:b])
			}
		default:
			c.Sep = rapid.StringN(1, 3, -1).Draw(t, "anysep")
		}
		if c.Sep != "" && (strings.Count(c.S, c.Sep) >= 2 || strings.HasPrefix(c.S, c.Sep) || strings.HasSuffix(c.S, c.Sep)) {
			labels = append(labels, "nontrivial")
		}
		if !isASCII(c.S) {
			labels = append(labels, "multi-byte", "nontrivial")
		}
		if !utf8.ValidString(c.S) || !utf8.ValidString(c.Sep) {
			c.S, c.Sep = "x", ","
		}
	case "number":
		var x float64
		switch rapid.IntRange(0, 5).Draw(t, "numkind") {
		case 0:
			x = float64(rapid.IntRange(-50, 50).Draw(t, "h")) + 0.5
		case 1:
			x = rapid.SampledFrom([]float64{0.49999999999999994, -0.49999999999999994, 4503599627370496.5, 4503599627370497.5, -4503599627370495.5, 9007199254740993, 1e300, -1e300, 5e-324, -5e-324, 0.5, -0.5, 1.5, -1.5, 2.5, -2.5}).Draw(t, "special")
		default:
			x = gen.Float64().Draw(t, "x")
		}
		c.Bits = math.Float64bits(x)
		fr := math.Abs(x) - math.Floor(math.Abs(x))
		if fr == 0.5 || math.Abs(x) >= 4503599627370496 {
			labels = append(labels, "nontrivial", "half-or-huge")
		}
	case "pluck":
		o := gen.DocOpts{Depth: 1, MaxItems: 5, SafeStr: true, SmallNums: true, Keys: []string{"a", "b", "c", "1", "length", "x y"}}
		obj := jsonx.VObj()
		n := rapid.IntRange(0, 5).Draw(t, "nkeys")
		seen := map[string]bool{}
		for k := 0; k < n; k++ {
			key := rapid.SampledFrom(o.Keys).Draw(t, "okey")
			if seen[key] {
				continue
			}
			seen[key] = true
			obj.Members = append(obj.Members, jsonx.Member{Key: key, Val: gen.JSONDoc(o).Draw(t, "oval")})
		}
		c.Obj = gen.Compact(obj)
		nk := rapid.IntRange(0, 5).Draw(t, "nargs")
		present, absent, repeated := false, false, false
		used := map[string]bool{}
		for k := 0; k < nk; k++ {
			key := rapid.SampledFrom([]string{`"a"`, `"b"`, `"c"`, `"zz"`, `1`, `"1"`, `"length"`, `"pluck"`, `"x y"`, `2.5`}).Draw(t, "pkey")
			c.Keys = append(c.Keys, key)
			kv, _ := jsonx.Parse(key)
			ks := kv.S
			if kv.K == jsonx.Num {
				ks = ref.Dec(kv.N)
			}
			if used[ks] {
				repeated = true
			}
			used[ks] = true
			if obj.Get(ks) != nil {
				present = true
			} else {
				absent = true
			}
			if ks == "length" || ks == "pluck" {
				labels = append(labels, "method-named-key")
			}
		}
		if (present && absent) || repeated {
			labels = append(labels, "nontrivial")
		}
	case "num":
		switch rapid.IntRange(0, 4).Draw(t, "numstr") {
		case 4:
			c.S = c05NumericString(t)
			labels = append(labels, "nontrivial")
		case 0:
			c.S = gen.NumText(gen.Float64().Draw(t, "x"))
			labels = append(labels, "nontrivial")
		case 1:
			c.S = rapid.SampledFrom([]string{"", "abc", " ", "1", "-2.5", "+3", ".5", "5.", "1e3", "1E-2", "007", "1.2.3", "e5", "1e", "--1", "12ab", "0.1", "123456789012345678901234567890"}).Draw(t, "fixed")
		case 2:
			c.S = rapid.StringOfN(rapid.RuneFrom([]rune("0123456789.eE+-")), 0, 8, -1).Draw(t, "digits")
		default:
			c.S = gen.StrRaw().Draw(t, "raw")
		}
		if cls, _ := ref.ClassifyNumeric(c.S); cls == ref.StrExotic {
			labels = append(labels, "exotic-not-asserted")
		}
	}
	return c, labels
}

// ---- wrong-kind receivers and argument lists ------------------------------------------------

var c16Methods = []string{"length", "push", "pop", "popfirst", "contains", "sort", "pluck", "split", "lower", "upper", "floor", "ceil", "round", "nosuch"}

func genC16Misuse(t *rapid.T) *DCase {
	recv := rapid.SampledFrom([]*ast.Node{
		ast.Num("2.5"), ast.Str("aBc"), ast.True(), ast.Null(), ast.Arr(ast.Num("2"), ast.Num("1")), ast.Paren(ast.Obj(ast.KV("a", ast.Num("1")))),
		ast.Regex("a"), ast.Id("unsetv"), ast.Id("fun"), ast.Id("printf"), ast.Mem(ast.Dollar(), "missing"), ast.Str(""), ast.Arr(),
	}).Draw(t, "recv").Clone()
	argPool := []*ast.Node{ast.Num("1"), ast.Str("a"), ast.Str(""), ast.Null(), ast.True(), ast.Arr(ast.Num("1")), ast.Paren(ast.Obj()), ast.Regex("a"), ast.Num("0.5")}
	nargs := rapid.IntRange(0, 3).Draw(t, "nargs")
	var args []*ast.Node
	for k := 0; k < nargs; k++ {
		args = append(args, rapid.SampledFrom(argPool).Draw(t, "arg").Clone())
	}
	var pre []*ast.Node
	if rapid.IntRange(0, 3).Draw(t, "viavar") == 0 && recv.K != "id" {
		// the receiver sits in a variable that an argument reassigns while the
		// arguments are evaluated
		pre = append(pre, ast.ExprS(ast.Set(ast.Id("rv"), recv)))
		recv = ast.Id("rv")
		if rapid.Bool().Draw(t, "reassign") {
			args = append(args, ast.Set(ast.Id("rv"), rapid.SampledFrom(argPool).Draw(t, "newrecv").Clone()))
		}
	}
	var call *ast.Node
	if rapid.IntRange(0, 4).Draw(t, "builtin") == 0 {
		call = ast.Call(ast.Id(rapid.SampledFrom([]string{"num", "json", "printf"}).Draw(t, "bi")), append([]*ast.Node{recv}, args...)...)
		if rapid.Bool().Draw(t, "noargs") {
			call = ast.Call(ast.Id(rapid.SampledFrom([]string{"num", "json", "printf"}).Draw(t, "bi2")))
		}
	} else {
		call = ast.Method(recv, rapid.SampledFrom(c16Methods).Draw(t, "method"), args...)
	}
	stmts := append(pre,
		ast.Print(ast.Str("before")),
		ast.ExprS(ast.Set(ast.Id("r"), call)),
		ast.Print(ast.Str("after"), ast.Is(ast.Id("r"), "null"), ast.Is(ast.Id("r"), "number"), ast.Is(ast.Id("r"), "string"), ast.Is(ast.Id("r"), "array"), ast.Is(ast.Id("r"), "object")),
	)
	return &DCase{
		Prog:  ast.Prog(ast.Func("fun", nil, ast.Block(ast.Return(ast.Num("1")))), ast.Rule("pattern", nil, ast.Block(stmts...))),
		Files: []DFile{{Name: "in", Docs: []string{`{"a":1}`}}},
	}
}

func TestC16(t *testing.T) {
	rec := start(t, "C16", "exploration",
		"contract families with direct oracles: strings (ASCII, multi-byte, arbitrary valid UTF-8; separators empty, 1-3 bytes, equal to the string, substrings, overlapping like \"aaa\".split(\"aa\")): length = byte count, upper/lower = Unicode case mapping + an independent ASCII table + idempotence + receiver unchanged, split = no piece contains sep AND join == s AND equality with the greedy split (empty sep: the UTF-8 characters; for receivers given as raw bytes of the program text, also not UTF-8: piece count, total piece bytes and in-program re-join), also right after an earlier result of the same call was modified; length() looked up repeatedly through one variable, loop variable, parameter or member whose value changes between strings, arrays and objects; numbers (halves of both signs, 0.49999999999999994, +-(2^52+0.5), >= 2^53, tiny, strata): floor/ceil/round checked with exact rational arithmetic (math/big), halves away from zero; pluck: objects x key lists with present, absent, repeated, numeric and method-named keys -> exact model, receiver unchanged, length = key count; num(s): numeric strings -> nearest double (exact rational oracle), non-numeric -> null, exotic not asserted; misuse: every method and builtin x receivers of every kind x 0-3 arguments of every kind -> value or RuntimeError (and equal to refjq where specified). Non-trivial per family: separator >= 2 times or at an end, multi-byte text; |x| with fraction .5 or >= 2^52; key list mixing present/absent or repeated; numeric string. distinct = distinct case.")
	defer rec.Finish()
	rec.Assume("Go's unicode tables for non-ASCII case mapping; math/big for exact arithmetic; json() as the observation device (its own correctness is C04's subject)")
	rec.Replayer("contract", func(raw json.RawMessage) error {
		var c C16Case
		if err := json.Unmarshal(raw, &c); err != nil {
			return err
		}
		if m := c16Check(&c); m != "" {
			return fmt.Errorf("%s", m)
		}
		return nil
	})
	rec.Replayer("misuse", func(raw json.RawMessage) error {
		var c DCase
		if err := json.Unmarshal(raw, &c); err != nil {
			return err
		}
		if m := c16MisuseCheck(&c); m != "" {
			return fmt.Errorf("%s", m)
		}
		return nil
	})
	if rec.ReplayOnly() {
		return
	}
	excl.ArrayAlias = rec.KnownActive("KF-array-alias", false)
	rec.ReplayTier()

	if sh, _ := shardInfo(); sh == 0 {
		for _, n := range []int{1000, 65534, 65535, 65536, 65537, 70000, 200000} {
			for _, sep := range []string{",", "ab"} {
				c := &C16Case{Family: "bigsplit", S: "x", Sep: sep, Keys: []string{fmt.Sprint(n)}}
				msg := c16Check(c)
				rec.Case(fmt.Sprintf("bigsplit %d %q", n, sep), n >= 65535, "family-bigsplit")
				if msg != "" {
					rec.Violation("contract", c, "(split of a long string)", msg)
				}
			}
		}
	}
	check(rec, "contract-random", scale(20000, 20000000), func(rt *rapid.T) {
		c, labels := genC16(rt)
		msg := c16Check(c)
		nt := false
		for _, l := range labels {
			if l == "nontrivial" {
				nt = true
			}
		}
		raw, _ := json.Marshal(c)
		rec.Case(string(raw), nt, append(labels, "family-"+c.Family)...)
		rec.Sample(func() interface{} { return c })
		if msg != "" {
			rec.Pending("contract", c, "", msg)
			rt.Fatalf("%s", msg)
		}
	})

	check(rec, "misuse-random", scale(8000, 8000000), func(rt *rapid.T) {
		c := genC16Misuse(rt)
		msg := c16MisuseCheck(c)
		rec.Case(c.Source(), true, "misuse")
		rec.Sample(func() interface{} { return c.describe() })
		if msg != "" {
			rec.Pending("misuse", c, c.Source(), msg)
			rt.Fatalf("%s\n%s", msg, c.Source())
		}
	})
}

// c16MisuseCheck: the outcome is a value or a runtime error, never anything
// else; where refjq specifies the result, it must agree.
func c16MisuseCheck(c *DCase) string {
	d := differential(c, false)
	if d.Impl.Class != "ok" && d.Impl.Class != "runtime" {
		return fmt.Sprintf("outcome %s (%s%s): a method or builtin invoked on another kind of receiver or with missing arguments must give a value or a runtime error", d.Impl.Class, d.Impl.Msg, d.Impl.Panic)
	}
	if d.Verdict == "fail" && !strings.Contains(d.Src, "( rv = ") && !strings.Contains(d.Src, ", rv = ") {
		// (which value a method acts on when an argument reassigns the receiver's
		// variable is not specified: only "value or runtime error" is asserted there)
		return d.Reason
	}
	return ""
}
