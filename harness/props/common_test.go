package props

import (
	"bytes"
	"encoding/json"
	"flag"
	"fmt"
	"os"
	"strconv"
	"strings"
	"testing"

	"verif/harness/ast"
	"verif/harness/ev"
	"verif/harness/jsonx"
	"verif/harness/ref"
	"verif/harness/run"

	"pgregory.net/rapid"
)

// start prepares a recorder and pins rapid's behaviour: no fail files, bounded
// shrinking, and a seed that is a pure function of VERIF_SEED and the shard.
func start(t *testing.T, prop, level, rule string) *ev.Recorder {
	os.RemoveAll("testdata/rapid")
	flag.Set("rapid.nofailfile", "true")
	shrink := "20s"
	if ev.Thorough() {
		shrink = "60s"
	}
	flag.Set("rapid.shrinktime", shrink)
	rec := ev.Start(t, prop, level, rule)
	// the reproduction of KF-array-alias (owned by C09) is a "locality" case; every
	// check that needs its exclusion must be able to re-run it
	rec.Replayer("locality", replayDiff(true))
	return rec
}

// rapidSeed derives the PRNG seed for one named sub-check (never 0: rapid treats
// 0 as "random").
func rapidSeed(name string) uint64 {
	shard, _ := ev.Shard()
	s := uint64(ev.Seed())*1000003 + uint64(shard)*7919 + ev.Hash(name)%100003
	s = s % (1 << 62)
	if s == 0 {
		s = 1
	}
	return s
}

// check runs a rapid property n times (split across shards in the thorough tier).
func check(rec *ev.Recorder, name string, n int, prop func(*rapid.T)) bool {
	flag.Set("rapid.checks", strconv.Itoa(n))
	flag.Set("rapid.seed", strconv.FormatUint(rapidSeed(name), 10))
	return rec.Check(name, prop)
}

// ---- the differential case shared by the model-based checks ---------------------------------

type DFile struct {
	Name string   `json:"name"`
	Docs []string `json:"docs"` // JSON texts, one per value of the stream
}

type DCase struct {
	Prog  *ast.Node   `json:"prog"`
	Sel   []*ast.Node `json:"sel,omitempty"`
	Files []DFile     `json:"files,omitempty"`
	Min   bool        `json:"min,omitempty"` // render with minimal parentheses
	Tag   string      `json:"tag,omitempty"` // free-form description (labels)
}

func (c *DCase) Source() string {
	if c.Min {
		return ast.SourceMin(c.Prog)
	}
	return ast.Source(c.Prog)
}

func (c *DCase) SelSources() []string {
	var out []string
	for _, s := range c.Sel {
		if c.Min {
			out = append(out, ast.SourceMin(s))
		} else {
			out = append(out, ast.Source(s))
		}
	}
	return out
}

func (c *DCase) inFiles() []run.InFile {
	var fs []run.InFile
	for _, f := range c.Files {
		fs = append(fs, run.InFile{Name: f.Name, Data: []byte(strings.Join(f.Docs, "\n"))})
	}
	return fs
}

func (c *DCase) refFiles() ([]ref.File, error) {
	var fs []ref.File
	for _, f := range c.Files {
		rf := ref.File{Name: f.Name}
		for _, d := range f.Docs {
			v, err := jsonx.Parse(d)
			if err != nil {
				return nil, fmt.Errorf("harness: generated document is not JSON: %v: %q", err, d)
			}
			rf.Values = append(rf.Values, v)
		}
		fs = append(fs, rf)
	}
	return fs, nil
}

// exclusions of open known findings, decided once per test process by running
// each finding's reproduction (see ev.KnownActive).
var excl ref.Excl

// generated programs cost a few thousand units; a run that needs millions is a
// runaway (e.g. an undetected cycle) and ends as outcome "budget" long before
// the Go stack is exhausted
const implBudget = 1_000_000

type diffResult struct {
	Verdict string // pass | fail | discard | excluded
	Reason  string
	Impl    run.Outcome
	Ref     ref.Result
	Src     string
}

// differential runs a case through the implementation and through refjq and
// compares outcome class and stdout.
func differential(c *DCase, wantRoot bool) diffResult {
	src := c.Source()
	sels := c.SelSources()
	impl := run.InProc(src, c.inFiles(), sels, run.Opts{Budget: implBudget, WantRoot: wantRoot})
	rfiles, err := c.refFiles()
	if err != nil {
		return diffResult{Verdict: "fail", Reason: err.Error(), Impl: impl, Src: src}
	}
	rr := ref.Run(ref.Config{Prog: c.Prog, Selectors: c.Sel, Files: rfiles, Hint: impl.Stdout, Excl: excl})
	if impl.Class == "budget" && rr.Class != "unspecified" && rr.Class != "known" {
		// the cost budget is there to end runaways, not to judge expensive programs: the reference
		// finished, so the implementation gets fifty times the budget before "it does not end"
		// is believed
		impl = run.InProc(src, c.inFiles(), sels, run.Opts{Budget: implBudget * 50, WantRoot: wantRoot})
	}
	res := diffResult{Impl: impl, Ref: rr, Src: src}
	switch rr.Class {
	case "unspecified":
		res.Verdict, res.Reason = "discard", rr.Reason
		return res
	case "known":
		res.Verdict, res.Reason = "excluded", rr.Reason
		return res
	}
	if rr.JSONUse {
		res.Verdict, res.Reason = "discard", "exact json() text is not modelled"
		return res
	}
	if impl.Class != rr.Class {
		res.Verdict = "fail"
		res.Reason = fmt.Sprintf("outcome class: implementation %s (%s), reference %s (%s)\n%s", impl.Class, implDetail(impl), rr.Class, rr.Reason, outDiff(impl.Stdout, rr.Out))
		return res
	}
	if !bytes.Equal(impl.Stdout, rr.Out) {
		res.Verdict = "fail"
		res.Reason = "stdout differs (outcome " + rr.Class + ")\n" + outDiff(impl.Stdout, rr.Out)
		return res
	}
	if wantRoot && rr.Class == "ok" && rr.Root != nil {
		if msg := compareRoot(impl, *rr.Root); msg != "" {
			res.Verdict, res.Reason = "fail", msg
			return res
		}
	}
	res.Verdict = "pass"
	return res
}

func implDetail(o run.Outcome) string {
	switch o.Class {
	case "panic":
		return "panic: " + o.Panic
	case "ok":
		return ""
	}
	return o.Msg
}

// compareRoot compares GetRootJson with the reference root, order-free.
func compareRoot(impl run.Outcome, root ref.V) string {
	want, ok := ref.ToJSON(root)
	if impl.RootPanic != "" {
		return "GetRootJson panicked: " + impl.RootPanic
	}
	if !ok {
		if impl.RootErr == "" {
			return "GetRootJson succeeded on a root the reference cannot express as JSON: " + clip(impl.RootJSON)
		}
		return ""
	}
	if impl.RootErr != "" {
		return "GetRootJson failed: " + impl.RootErr + "; reference root " + jsonx.Compact(want)
	}
	got, err := jsonx.Parse(impl.RootJSON)
	if err != nil {
		return "GetRootJson is not valid JSON: " + err.Error() + ": " + clip(impl.RootJSON)
	}
	if !jsonx.Equal(got, want) {
		return "final root differs: implementation " + jsonx.Compact(got) + ", reference " + jsonx.Compact(want)
	}
	return ""
}

func clip(s string) string {
	if len(s) > 400 {
		return s[:400] + "..."
	}
	return s
}

func outDiff(got, want []byte) string {
	gl := strings.SplitAfter(string(got), "\n")
	wl := strings.SplitAfter(string(want), "\n")
	k := 0
	for k < len(gl) && k < len(wl) && gl[k] == wl[k] {
		k++
	}
	g, w := "<end of output>", "<end of output>"
	if k < len(gl) {
		g = strconv.Quote(gl[k])
	}
	if k < len(wl) {
		w = strconv.Quote(wl[k])
	}
	return fmt.Sprintf("first difference at output line %d:\n implementation: %s\n reference:      %s\n(implementation wrote %d bytes, reference %d)", k+1, g, w, len(got), len(want))
}

// describe renders a case for evidence samples and failure reports.
func (c *DCase) describe() map[string]interface{} {
	m := map[string]interface{}{"program": c.Source()}
	if len(c.Sel) > 0 {
		m["selectors"] = c.SelSources()
	}
	if len(c.Files) > 0 {
		var fs []string
		for _, f := range c.Files {
			fs = append(fs, f.Name+": "+strings.Join(f.Docs, " "))
		}
		m["input"] = fs
	}
	if c.Tag != "" {
		m["tag"] = c.Tag
	}
	return m
}

// replayDiff makes a replayer for DCase-based checks.
func replayDiff(wantRoot bool) func(json.RawMessage) error {
	return func(raw json.RawMessage) error {
		var c DCase
		if err := json.Unmarshal(raw, &c); err != nil {
			return err
		}
		d := differential(&c, wantRoot)
		if d.Verdict == "fail" {
			return fmt.Errorf("%s\nprogram:\n%s", d.Reason, d.Src)
		}
		return nil
	}
}

// runDiff is the body shared by rapid-driven differential checks: it runs the
// case, records it, and fails the rapid test on a mismatch.
func runDiff(rec *ev.Recorder, rt *rapid.T, checkName string, c *DCase, wantRoot bool, nontrivial func(d *diffResult) bool, labels ...string) *diffResult {
	d := differential(c, wantRoot)
	switch d.Verdict {
	case "discard":
		rec.Discard(d.Reason)
		return &d
	case "excluded":
		rec.Excluded(d.Reason)
		return &d
	}
	nt := true
	if nontrivial != nil {
		nt = nontrivial(&d)
	}
	rec.Case(d.Src+"\x00"+strings.Join(c.SelSources(), "\x00")+"\x00"+fmt.Sprint(c.Files), nt, labels...)
	rec.Labels(d.Ref.Events)
	rec.Label("outcome-" + d.Ref.Class)
	rec.Sample(func() interface{} {
		m := c.describe()
		m["expected_outcome"] = d.Ref.Class
		m["expected_stdout"] = clip(string(d.Ref.Out))
		return m
	})
	if d.Verdict == "fail" {
		rec.Pending(checkName, c, d.Src, d.Reason)
		if rt != nil {
			rt.Fatalf("%s\nprogram:\n%s", d.Reason, d.Src)
		}
	}
	return &d
}

func shardInfo() (int, int) { return ev.Shard() }

// scale picks a per-process case count: the thorough total is divided among shards.
func scale(quick, thorough int) int {
	if !ev.Thorough() {
		return quick
	}
	_, n := ev.Shard()
	return (thorough + n - 1) / n
}

func evThorough() bool { return ev.Thorough() }

func flagSet(name, val string) { flag.Set(name, val) }

func osReadFile(p string) ([]byte, error) { return os.ReadFile(p) }

// inflight keeps the case being run on disk: a Go fatal error (stack exhaustion,
// out of memory) cannot be recovered, so if the test process dies the driver
// re-runs exactly this case in a fresh process. The returned func removes the file.
func inflight(prop, check string, c interface{}, program string) func() {
	dir := os.Getenv("VERIF_WORK")
	if dir == "" {
		return func() {}
	}
	path := fmt.Sprintf("%s/inflight-%d.json", dir, os.Getpid())
	raw, _ := json.Marshal(c)
	rp := ev.Replay{Property: prop, Check: check, Explain: "the test process died while running this case", Program: program, Case: raw}
	data, _ := json.Marshal(rp)
	os.WriteFile(path, data, 0o644)
	return func() { os.Remove(path) }
}
