package props

import (
	"bytes"
	"testing/iotest"
	"encoding/json"
	"fmt"
	"strings"
	"testing"

	"verif/harness/ast"
	"verif/harness/gen"
	"verif/harness/jsonx"
	"verif/harness/run"

	"pgregory.net/rapid"
)

// C10 — output is a deterministic function of program, selectors and input
// bytes: repeating a run, in a fresh process or after any other runs in the
// same process, yields byte-identical results.

type C10Triple struct {
	Src   ast.BS   `json:"src"`
	Sels  []string `json:"sels,omitempty"`
	Files []DFile  `json:"files,omitempty"`
	Fuzz  bool     `json:"fuzz,omitempty"` // run in the library's fuzzing mode (as the project's fuzz targets do)
}

type C10Session struct {
	Triples  []C10Triple `json:"triples"`
	Schedule []int       `json:"schedule"`
	CLI      bool        `json:"cli,omitempty"`
}

// run executes the triple; nth counts its executions in the session. The same input bytes
// are handed over differently from one execution to the next (whole, together with the end
// of input, one byte per read, half of what was asked for): the results are a function of
// the bytes, not of how a reader delivers them.
func (tr *C10Triple) run(nth int) string {
	var files []run.InFile
	for _, f := range tr.Files {
		data := []byte(strings.Join(f.Docs, "\n"))
		in := run.InFile{Name: f.Name, Data: data}
		switch nth % 4 {
		case 1:
			in.Reader = iotest.DataErrReader(bytes.NewReader(data))
		case 2:
			in.Reader = iotest.OneByteReader(bytes.NewReader(data))
		case 3:
			in.Reader = iotest.HalfReader(bytes.NewReader(data))
		}
		files = append(files, in)
	}
	o := run.InProc(string(tr.Src), files, tr.Sels, run.Opts{Budget: implBudget, WantRoot: true, Fuzzing: tr.Fuzz})
	return fmt.Sprintf("class=%s msg=%q line=%d col=%d file=%q\nroot=%q rooterr=%q rootpanic=%q panic=%q\nstdout=%q", o.Class, o.Msg, o.Line, o.Col, o.FileName, o.RootJSON, o.RootErr, o.RootPanic, o.Panic, o.Stdout)
}

func c10Check(s *C10Session) string {
	first := map[int]string{}
	count := map[int]int{}
	for step, k := range s.Schedule {
		sig := s.Triples[k].run(count[k])
		count[k]++
		if prev, ok := first[k]; !ok {
			first[k] = sig
		} else if prev != sig {
			return fmt.Sprintf("execution %d of triple %d (step %d of the session) differs from its first execution\n first: %s\n now:   %s\nprogram:\n%s", count[k], k, step, clip(prev), clip(sig), s.Triples[k].Src)
		}
	}
	if s.CLI && run.CLIBinary() != "" {
		for k := range s.Triples {
			tr := &s.Triples[k]
			if len(tr.Files) > 1 || tr.Fuzz {
				continue
			}
			var sigs []string
			var lastCLI *run.CLIResult
			for rep := 0; rep < 3; rep++ {
				args := []string{"-o", "-"}
				for _, sel := range tr.Sels {
					args = append(args, "-r", sel)
				}
				args = append(args, "-f", "prog.jqawk")
				files := map[string][]byte{"prog.jqawk": []byte(tr.Src)}
				for _, f := range tr.Files {
					files[f.Name+".json"] = []byte(strings.Join(f.Docs, "\n"))
					args = append(args, f.Name+".json")
				}
				res, err := run.CLI(run.CLIOpts{Args: args, Files: files})
				if err != nil || res.TimedOut {
					sigs = nil
					break
				}
				sigs = append(sigs, fmt.Sprintf("exit=%d stdout=%q stderr=%q", res.Exit, res.Stdout, res.Stderr))
				lastCLI = res
			}
			for _, sg := range sigs {
				if sg != sigs[0] {
					return fmt.Sprintf("two fresh processes gave different results for triple %d\n %s\n %s\nprogram:\n%s", k, clip(sigs[0]), clip(sg), tr.Src)
				}
			}
			// a fresh process and this (much used) process agree on stdout, the JSON output
			// and the success/error outcome
			if len(sigs) > 0 && len(tr.Files) <= 1 {
				var ins []run.InFile
				for _, f := range tr.Files {
					ins = append(ins, run.InFile{Name: f.Name + ".json", Data: []byte(strings.Join(f.Docs, "\n"))})
				}
				if len(ins) == 0 {
					ins = []run.InFile{{Name: "<stdin>", Data: nil}} // the binary reads its (empty) standard input
				}
				o := run.InProc(string(tr.Src), ins, tr.Sels, run.Opts{Budget: implBudget, WantRoot: true})
				want, wantExit := string(o.Stdout), 1
				switch {
				case o.Class == "ok" && o.RootErr == "" && o.RootPanic == "":
					want, wantExit = string(o.Stdout)+o.RootJSON, 0
				case o.Class == "ok" && o.RootPanic == "" && o.RootErr != "budget", o.Class == "runtime", o.Class == "syntax", o.Class == "json", o.Class == "other":
				default:
					wantExit = -1 // budget, panic: not comparable
				}
				if wantExit >= 0 {
					if got := fmt.Sprintf("exit=%d stdout=%q", lastCLI.Exit, lastCLI.Stdout); got != fmt.Sprintf("exit=%d stdout=%q", wantExit, want) {
						return fmt.Sprintf("a fresh process and a run inside the long-lived process differ for triple %d\n fresh process: %s (stderr %q)\n in-process:    exit=%d stdout=%q (class %s, %s)\nprogram:\n%s", k, clip(got), clip(string(lastCLI.Stderr)), wantExit, clip(want), o.Class, o.Msg, tr.Src)
					}
				}
			}
		}
	}
	return ""
}

// c10Anchor: programs aimed at the anchors: printing and iterating objects with
// many keys from every source, and method lookups of every prototype.
func c10Anchor(t *rapid.T) C10Triple {
	nkeys := rapid.IntRange(2, 12).Draw(t, "nkeys")
	pool := []string{"b", "a", "c", "zeta", "k1", "k2", "x", "y", "id", "name", "n", "m", "q", "longer_key", "A", "Z", "Id", "ID", "a_", "B", "Name", "NAME", "k10", "k9", "_", "__x"}
	if rapid.IntRange(0, 5).Draw(t, "manykeys") == 0 {
		// larger than any small-size special case of the underlying map or sort
		nkeys = rapid.IntRange(13, 60).Draw(t, "nmany")
		for i := 0; i < 64; i++ {
			pool = append(pool, fmt.Sprintf("key%02d", (i*37)%64))
		}
	}
	numeric := false
	if nkeys <= 12 && rapid.IntRange(0, 4).Draw(t, "numerickeys") == 0 {
		// keys that are different strings but read as the same number (or in another order as
		// numbers than as strings): the order of the keys is one order all the same
		numeric = true
		pool = []string{"1", "1.0", "01", "1e0", "10", "9", "2", "02", "2.0", "0", "-0", "0.0", "1.00", "+1"}
	}
	var keys []string
	seen := map[string]bool{}
	for len(keys) < nkeys {
		k := rapid.SampledFrom(pool).Draw(t, "key")
		if !seen[k] {
			seen[k] = true
			keys = append(keys, k)
		}
	}
	var docMembers []jsonx.Member
	var kvs []*ast.Node
	for i, k := range keys {
		docMembers = append(docMembers, jsonx.Member{Key: k, Val: jsonx.VNum(float64(i))})
		if numeric {
			kvs = append(kvs, ast.KVs(k, ast.Num(fmt.Sprint(i))))
		} else {
			kvs = append(kvs, ast.KV(k, ast.Num(fmt.Sprint(i))))
		}
	}
	doc := jsonx.VObj(docMembers...)
	var stmts []*ast.Node
	src := rapid.IntRange(0, 3).Draw(t, "objsource")
	var obj *ast.Node
	switch src {
	case 0:
		obj = ast.Dollar()
	case 1:
		stmts = append(stmts, ast.ExprS(ast.Set(ast.Id("o"), ast.Obj(kvs...))))
		obj = ast.Id("o")
	case 2:
		for i, k := range keys {
			if numeric {
				stmts = append(stmts, ast.ExprS(ast.Set(ast.Idx(ast.Id("o"), ast.Str(k)), ast.Num(fmt.Sprint(i)))))
			} else {
				stmts = append(stmts, ast.ExprS(ast.Set(ast.Mem(ast.Id("o"), k), ast.Num(fmt.Sprint(i)))))
			}
		}
		obj = ast.Id("o")
	default:
		var args []*ast.Node
		for _, k := range keys {
			args = append(args, ast.Str(k))
		}
		stmts = append(stmts, ast.ExprS(ast.Set(ast.Id("o"), ast.Method(ast.Dollar(), "pluck", args...))))
		obj = ast.Id("o")
	}
	stmts = append(stmts, ast.Print(obj.Clone()))
	stmts = append(stmts, ast.ForIn("k", "v", obj.Clone(), ast.Block(ast.Print(ast.Id("k"), ast.Id("v")))))
	stmts = append(stmts, ast.ExprS(ast.Call(ast.Id("printf"), ast.Str("%v\\n"), ast.Arr(obj.Clone(), obj.Clone()))))
	// method lookups of every prototype in one run
	stmts = append(stmts,
		ast.Print(ast.Method(ast.Arr(ast.Num("3"), ast.Num("1")), "sort"), ast.Method(ast.Str("aB"), "upper"), ast.Method(ast.Num("2.5"), "round"), ast.Method(obj.Clone(), "length")),
		ast.ExprS(ast.Set(ast.Id("arr"), ast.Arr())), ast.ExprS(ast.Method(ast.Id("arr"), "push", ast.Method(ast.Arr(ast.Num("1")), "length"))),
		ast.Print(ast.Id("arr"), ast.Method(ast.Id("arr"), "length")))
	prog := ast.Prog(ast.Rule("pattern", nil, ast.Block(stmts...)))
	return C10Triple{Src: ast.BS(ast.Source(prog)), Files: []DFile{{Name: "in", Docs: []string{gen.Compact(doc)}}}}
}

// c10Intruder: programs that try to leave something behind in the process:
// assignments to method names, to builtins, odd uses of prototypes.
func c10Intruder(t *rapid.T) C10Triple {
	src := rapid.SampledFrom([]string{
		`BEGIN { a = []; a.length = 5 }`,
		`BEGIN { o = {}; o.length = 7; o.pluck = 1; print o }`,
		`BEGIN { s = "x"; s.upper = 3 }`,
		`BEGIN { n = 1; n.floor = 2 }`,
		`BEGIN { a = [1]; a.push = 0; print a.length() }`,
		`BEGIN { o = {a: 1}; o.length++; print o }`,
		`BEGIN { x = [2,1]; f = x.sort; print f }`,
		`BEGIN { printf = 1; print printf }`,
		`BEGIN { json = 2; num = 3; print json + num }`,
		`BEGIN { a = [1,2]; a.length.x = 1 }`,
		`BEGIN { a = [3]; b = [4]; a.push(b.push(5).length()); print a, b }`,
		`BEGIN { "abc".length = 1; print "abc".length() }`,
		`{ $.length = 9 ; $.pluck = 8 }`,
		`BEGIN { a = []; a["push"] = 1; a["sort"]++ }`,
		`BEGIN { t = "ab"; t[9] = 7; t[3]++; t[0] = "z"; print t }`,
		`BEGIN { "hello"[7] = 1; x = "hello"[9]; x = 5; print "hello"[9] }`,
		`BEGIN { n = 5; n.x = 1 } END { }`,
		`BEGIN { b = true; b.k++; z = null; z.k = 1 }`,
		`BEGIN { r = /a/; r.x = 2; r[0]++ }`,
		`{ $.name[10] = 9; $.name[12]++ }`,
		// values that are == but print differently (0 and -0, 1 and "1"): the text of one must not
		// depend on whether the other was printed earlier in the process
		`BEGIN { z = 0 * -1; print z, [z], {k: z}, "" + z; printf("%v %f\n", z, z) }`,
		`BEGIN { z = 0; print z, [z], {k: z}, "" + z, 1 - 1; printf("%v %f\n", z, z) }`,
		`{ print -$.a * 0, $.a * 0, [0, -0, 0.0] }`,
		// sorting decides between numeric and textual order per call, not per process
		`BEGIN { print ["b", 10, "9", 1].sort(), [true, "x", 2].sort() }`,
		`BEGIN { print [10, 9, 100, 1].sort(), [20, 3, 2.5].sort(); print ["b", 10].sort(); print [10, 9, 100, 1].sort() }`,
		// values with several members that JSON cannot express: which one is reported?
		`BEGIN { o = {a: /x/}; o.b = o; print json(o) }`,
		`BEGIN { o = {k1: 1, k2: /x/, k3: 2}; o.k0 = o; o.k9 = [o]; print "before"; print json(o) }`,
		`{ $.r = /x/; $.self = $; $.z = [/y/, $] }`,
		`BEGIN { o = {}; o.z = /x/; o.a = [o]; o.m = {r: /y/}; print json([o]) }`,
		`{ $.b = /x/; $.a = $; print json($.pluck("a", "b")) }`,
	}).Draw(t, "intruder")
	return C10Triple{Src: ast.BS(src), Files: []DFile{{Name: "in", Docs: []string{`{"a":1,"b":[1,2]}`}}}}
}

// c10Probe pairs: a generated store into the result of some read (whatever it
// is: a member of a scalar, an index into a string, a method name, a missing
// path), and an observer program that performs the same reads on fresh values.
var c10Receivers = []string{`"hello"`, `"ab"`, `5`, `2.5`, `true`, `null`, `[1, 2]`, `[]`, `{a: 1}`, `{}`, `/re/`, `$.name`, `$.b`, `$.missing`, `$.a`}
var c10Keys = []string{`[0]`, `[1]`, `[9]`, `[0 - 1]`, `.length`, `.x`, `.a`, `["k"]`, `.push`, `.upper`, `.floor`, `.pluck`, `[2.5]`, `.name`}

func c10ProbeStore(t *rapid.T) (C10Triple, string, string) {
	recv := rapid.SampledFrom(c10Receivers).Draw(t, "precv")
	key := rapid.SampledFrom(c10Keys).Draw(t, "pkey")
	op := rapid.SampledFrom([]string{" = 7", "++", " += 1", " = \"s\"", " = [1]"}).Draw(t, "pop")
	// (every statement starts with a name: a leading '(' would continue the previous one)
	prog := "{ print \"store\"\nv = " + recv + "\nv" + key + op + "\nprint \"stored\", v\nu = [" + recv + "]\nu[0]" + key + op + "\nprint u }"
	if rapid.Bool().Draw(t, "viacopy") {
		prog = "{ print \"store\"\nw = (" + recv + ")" + key + "\nw" + op + "\nprint \"stored\", w }"
	}
	return C10Triple{Src: ast.BS(prog), Files: []DFile{{Name: "in", Docs: []string{`{"a":1,"b":[1,2],"name":"nm"}`}}}}, recv, key
}

// c10ProbeObserve reads the same kind of place the store wrote to (same key on
// the same and on other receivers), plus a few random ones.
func c10ProbeObserve(t *rapid.T, recv0, key0 string) C10Triple {
	var sb strings.Builder
	sb.WriteString("{ print \"observe\"\n")
	n := rapid.IntRange(3, 7).Draw(t, "nobs")
	for k := 0; k < n; k++ {
		recv := rapid.SampledFrom(c10Receivers).Draw(t, "orecv")
		key := rapid.SampledFrom(c10Keys).Draw(t, "okey")
		switch k {
		case 0:
			recv, key = recv0, key0
		case 1:
			key = key0
		}
		fmt.Fprintf(&sb, "o%d = (%s)%s\nprint %d, o%d is null, o%d is number, o%d is string\n", k, recv, key, k, k, k, k)
	}
	sb.WriteString("}")
	return C10Triple{Src: ast.BS(sb.String()), Files: []DFile{{Name: "in", Docs: []string{`{"a":1,"b":[1,2],"name":"nm"}`}}}}
}

// c10Lazy: one-liners that make the very first use, in a fresh process, of one
// kind of value or prototype -- nothing else in the program or the input touches
// that kind before. Sessions containing them always take the fresh-process
// comparison.
var c10LazyRecv = []string{`$index`, `$.length()`, `"ab".length()`, `[].length()`, `{}.length()`, `num("3")`, `num("2.5")`, `$key`, `$`, `"aXb"`, `[]`, `{}`, `true`, `null`, `/x/`, `2.5`, `7`, `$index % 2`, `-$index`, `$.pluck("a")`, `"a,b".split(",")`, `json($)`}
var c10LazyUse = []string{`.floor()`, `.ceil()`, `.round()`, `.length()`, `.upper()`, `.lower()`, `.split("X")`, `.sort()`, `.push(1)`, `.pop()`, `.popfirst()`, `.contains("a")`, `.pluck("a")`, ``, ` + 1`, ` is number`, `.floor`, `.x`, `[0]`}

func c10Lazy(t *rapid.T) C10Triple {
	var sb strings.Builder
	sb.WriteString(rapid.SampledFrom([]string{"{", "BEGIN {", "END {", "$ is array {"}).Draw(t, "lazyrule"))
	n := rapid.IntRange(1, 3).Draw(t, "nlazy")
	for k := 0; k < n; k++ {
		fmt.Fprintf(&sb, " print (%s)%s\n", rapid.SampledFrom(c10LazyRecv).Draw(t, "lrecv"), rapid.SampledFrom(c10LazyUse).Draw(t, "luse"))
	}
	sb.WriteString("}")
	doc := rapid.SampledFrom([]string{`["a","bc"]`, `[1,2]`, `{"a":"v"}`, `[]`, `"s"`, `[{"a":"x"}]`, `[[],{}]`, `null`, `[true]`}).Draw(t, "lazydoc")
	return C10Triple{Src: ast.BS(sb.String()), Files: []DFile{{Name: "in", Docs: []string{doc}}}}
}

// c10LiteralOrder: object and array literals whose member values have side
// effects: the order in which they are evaluated shows in the values and the trace.
func c10LiteralOrder(t *rapid.T) C10Triple {
	n := rapid.IntRange(2, 9).Draw(t, "nlit")
	keys := rapid.Permutation([]string{"a", "b", "c", "d", "e", "f", "g", "h", "k"}).Draw(t, "litkeys")[:n]
	var sb strings.Builder
	sb.WriteString("function tr(x) { print \"tr\", x; return x }\nBEGIN { n = 0\no = {")
	for i, k := range keys {
		if i > 0 {
			sb.WriteString(", ")
		}
		switch rapid.IntRange(0, 3).Draw(t, "litval") {
		case 0:
			fmt.Fprintf(&sb, "%s: n++", k)
		case 1:
			fmt.Fprintf(&sb, "%s: tr(\"%s\")", k, k)
		case 2:
			fmt.Fprintf(&sb, "%s: (n = n * 2 + 1)", k)
		default:
			fmt.Fprintf(&sb, "%s: [n++, tr(n)]", k)
		}
	}
	sb.WriteString("}\nprint o, n\nfor (k, v in o) print k, v\n}")
	return C10Triple{Src: ast.BS(sb.String())}
}

// c10StatefulSelector: root selectors with side effects on variables of their own: every
// selector evaluation starts from nothing, in every document and in every run.
func c10StatefulSelector(t *rapid.T) C10Triple {
	sels := [][]string{{"$[i++]"}, {"[n = n + 1, $][0]", "$[i++]"}, {"$[i++]", "$[i++]"}, {"[seen.push($), seen][1]"}, {"{k: (c = c + \"x\"), v: $}"}}
	docs := rapid.SampledFrom([]string{"[10,20,30] [40,50,60] [70,80,90]", "[[1],[2]]\n[[3],[4]]", "[1,2]"}).Draw(t, "ssdoc")
	src := rapid.SampledFrom([]string{"{ print $ }", "BEGINFILE { print \"bf\", $ } { print \"v\", $ } END { print \"end\" }", "{ print $index, $ }"}).Draw(t, "sssrc")
	return C10Triple{Src: ast.BS(src), Sels: sels[rapid.IntRange(0, len(sels)-1).Draw(t, "sssel")], Files: []DFile{{Name: "in", Docs: []string{docs}}}}
}

// c10Deep: recursion to a depth of tens to thousands of frames (through a function, or a
// function and a match body in turn): whether it succeeds does not depend on what ran before.
func c10Deep(t *rapid.T) C10Triple {
	sizes := []int{40, 70, 130, 200, 300, 513, 520, 600, 700, 1000}
	if evThorough() {
		sizes = append(sizes, 1500, 2000, 2047, 3000, 4000, 4090)
	}
	n := rapid.SampledFrom(sizes).Draw(t, "deepn")
	src := fmt.Sprintf("function f(n) { if (n <= 0) { return 0 }\nreturn 1 + f(n - 1) }\nBEGIN { print f(%d) }", n)
	if rapid.Bool().Draw(t, "deepmatch") {
		src = fmt.Sprintf("function f(n) { if (n <= 0) { return 0 }\nreturn match (n) { k => { return 1 + f(k - 1) } } }\nBEGIN { print f(%d) }", n/2)
	}
	return C10Triple{Src: ast.BS(src)}
}

func c10FromCase(c *DCase) C10Triple {
	return C10Triple{Src: ast.BS(c.Source()), Sels: c.SelSources(), Files: c.Files}
}

func genC10(t *rapid.T) (*C10Session, []string) {
	n := rapid.IntRange(2, 4).Draw(t, "ntriples")
	s := &C10Session{}
	var labels []string
	intruders := map[int]bool{}
	for k := 0; k < n; k++ {
		switch rapid.IntRange(0, 15).Draw(t, "family") {
		case 15:
			s.Triples = append(s.Triples, c10Deep(t))
			labels = append(labels, "deep-recursion")
		case 14:
			s.Triples = append(s.Triples, c10StatefulSelector(t))
			labels = append(labels, "selector-with-side-effects", "intruder")
		case 13:
			s.Triples = append(s.Triples, c10LiteralOrder(t))
			labels = append(labels, "literal-evaluation-order", "anchor-object-order")
		case 10:
			s.Triples = append(s.Triples, c10Lazy(t))
			labels = append(labels, "first-use-in-process")
		case 11, 12:
			// printf calls that succeed or fail part-way, next to one that always works
			c, _ := genC18(t)
			s.Triples = append(s.Triples, c10FromCase(c), C10Triple{Src: ast.BS(`BEGIN { printf("%s=%f|", "n", 3); printf("%v\n", [1]) }`)})
			labels = append(labels, "printf")
			k++
		case 0, 1, 2:
			s.Triples = append(s.Triples, c10Anchor(t))
			labels = append(labels, "anchor-object-order")
		case 3:
			s.Triples = append(s.Triples, c10Intruder(t))
			intruders[len(s.Triples)-1] = true
			labels = append(labels, "intruder")
		case 4:
			st, recv, key := c10ProbeStore(t)
			s.Triples = append(s.Triples, c10ProbeObserve(t, recv, key), st)
			intruders[len(s.Triples)-1] = true
			labels = append(labels, "intruder", "probe-store", "probe-observe")
			k++
		case 5:
			c, _ := genC02(t)
			s.Triples = append(s.Triples, c10FromCase(c))
			labels = append(labels, "rules")
		case 6:
			c, _ := genC07(t, 3)
			s.Triples = append(s.Triples, c10FromCase(c))
			labels = append(labels, "control-flow")
		case 7:
			c, _ := genC09(t, 8)
			s.Triples = append(s.Triples, c10FromCase(c))
			labels = append(labels, "assignments")
		case 8:
			c, _, _ := genC15(t, 8)
			s.Triples = append(s.Triples, c10FromCase(c))
			labels = append(labels, "array-methods")
		default:
			f, _ := genC11Fault(t)
			s.Triples = append(s.Triples, c10FromCase(f.Case))
			labels = append(labels, "faulted")
		}
	}
	// now and then one of the programs runs in the library's fuzzing mode (every execution of
	// it): the other programs' results do not depend on that
	if rapid.IntRange(0, 3).Draw(t, "fuzzmode") == 0 {
		k := rapid.IntRange(0, len(s.Triples)-1).Draw(t, "fuzztriple")
		s.Triples[k].Fuzz = true
		intruders[k] = true
		labels = append(labels, "a-run-in-fuzzing-mode")
	}
	// every triple is executed 8 times, interleaved with the others. In the first
	// round the programs that try to leave something behind run last, so that every
	// other program has a first execution on an untouched process to compare with.
	for k := range s.Triples {
		if !intruders[k] {
			s.Schedule = append(s.Schedule, k)
		}
	}
	for k := range s.Triples {
		if intruders[k] {
			s.Schedule = append(s.Schedule, k)
		}
	}
	for rep := 1; rep < 8; rep++ {
		perm := rapid.Permutation(seq(len(s.Triples))).Draw(t, "order")
		s.Schedule = append(s.Schedule, perm...)
	}
	return s, labels
}

func seq(n int) []int {
	xs := make([]int, n)
	for i := range xs {
		xs[i] = i
	}
	return xs
}

func TestC10(t *testing.T) {
	rec := start(t, "C10", "exploration",
		"sessions: 2-4 (program, selectors, input) triples executed in one process, each 8 times, interleaved in a random order (A B A C B A ...). Triples come from: an anchor family (print, for-in and printf %v over objects with 2-12 keys taken from the document, a literal, auto-creation and pluck, plus method lookups of every prototype); an intruder family (assignments to method names and builtins, nested method calls, stores into string indices and members of scalars, generated 'store into the result of any read' programs paired with observer programs performing the same reads) that tries to leave state behind in the process; and the C02 / C07 / C09 / C15 / C11 generators (including runs that end in every error kind). Oracle: every execution of a triple gives byte-identical stdout, GetRootJson text and error (class, message, line, column). object literals whose member values have side effects (evaluation order); root selectors with side effects on variables of their own over several documents; printf programs that succeed or fail part-way (C18 generator) next to one that always works; one-liners making the first use in a process of one kind of value or prototype method (int-origin numbers such as $index or length(), strings, arrays, objects, regexes). A sample of sessions (and every session with a first-use one-liner) is also run through the binary: three fresh processes must agree with each other and with the run inside the long-lived test process (stdout followed by the -o - JSON text, exit status). Non-trivial: the session contains a triple printing or iterating an object with >= 3 keys, or an intruder next to programs using the same prototype. distinct = distinct session.")
	defer rec.Finish()
	rec.Assume("nondeterminism is detected probabilistically: a randomised order of >= 3 keys survives 8 executions with probability <= 3^-7 per case")
	rec.Replayer("session", func(raw json.RawMessage) error {
		var s C10Session
		if err := json.Unmarshal(raw, &s); err != nil {
			return err
		}
		if m := c10Check(&s); m != "" {
			return fmt.Errorf("%s", m)
		}
		return nil
	})
	if rec.ReplayOnly() {
		return
	}
	excl.ArrayAlias = rec.KnownActive("KF-array-alias", false)
	rec.ReplayTier()
	check(rec, "session-random", scale(2500, 350000), func(rt *rapid.T) {
		s, labels := genC10(rt)
		s.CLI = rapid.IntRange(0, 39).Draw(rt, "cli") == 0
		for _, l := range labels {
			if l == "first-use-in-process" {
				s.CLI = true
			}
			if l == "deep-recursion" && rapid.IntRange(0, 2).Draw(rt, "deepcli") == 0 {
				s.CLI = true
			}
		}
		msg := c10Check(s)
		nt := false
		for _, l := range labels {
			if l == "anchor-object-order" || l == "intruder" {
				nt = true
			}
		}
		var key strings.Builder
		for _, tr := range s.Triples {
			key.WriteString(string(tr.Src))
			key.WriteByte(0)
		}
		fmt.Fprint(&key, s.Schedule)
		if s.CLI {
			labels = append(labels, "fresh-processes")
		}
		rec.Case(key.String(), nt, labels...)
		rec.Sample(func() interface{} {
			var ps []string
			for _, tr := range s.Triples {
				ps = append(ps, string(tr.Src))
			}
			return map[string]interface{}{"programs": ps, "schedule": s.Schedule}
		})
		if msg != "" {
			rec.Pending("session", s, string(s.Triples[0].Src), msg)
			rt.Fatalf("%s", msg)
		}
	})
}
