package props

import (
	"encoding/json"
	"fmt"
	"strings"
	"testing"

	"verif/harness/ast"
	"verif/harness/ref"
	"verif/harness/run"

	"pgregory.net/rapid"
)

// C11 — syntax errors pre-empt all execution; runtime faults stop the run at the
// fault: everything printed before is kept, nothing after, never ignored.

// ---- (b) runtime fault injection ---------------------------------------------------------------

type c11Slot struct {
	parent *ast.Node
	index  int
	kind   string
}

func c11ExprKits() map[string]*ast.Node {
	return map[string]*ast.Node{
		"div-zero":        ast.Bin("/", ast.Num("1"), ast.Num("0")),
		"mod-zero":        ast.Bin("%", ast.Num("1"), ast.Num("0")),
		"call-unset":      ast.Call(ast.Id("nofn"), ast.Num("1")),
		"call-number":     ast.Call(ast.Num("5"), ast.Num("1")),
		"bad-regex":       ast.Bin("~", ast.Str("a"), ast.Str("(")),
		"compare-array":   ast.Bin("<", ast.Arr(), ast.Num("1")),
		"compare-object":  ast.Bin("==", ast.Paren(ast.Obj()), ast.Num("1")),
		"unknown-dollar":  ast.Id("$nope"),
		"printf-kind":     ast.Call(ast.Id("printf"), ast.Str("%s"), ast.Num("1")),
		"printf-unknown":  ast.Call(ast.Id("printf"), ast.Str("%d"), ast.Num("1")),
		"printf-dangling": ast.Call(ast.Id("printf"), ast.Str("%")),
		"split-no-arg":    ast.Method(ast.Str("a"), "split"),
		"push-no-arg":     ast.Method(ast.Arr(ast.Num("1")), "push"),
		"index-before":    ast.Idx(ast.Arr(ast.Num("1")), ast.Bin("-", ast.Num("0"), ast.Num("5"))),
		"bad-escape":      ast.Str("\\q"),
		"json-function":   ast.Call(ast.Id("json"), ast.Id("c11fun")),
		"call-null":       ast.Method(ast.Num("5"), "push", ast.Num("1")),
		// the truncated divisor is zero although the divisor is not (3.4)
		"mod-fraction": ast.Bin("%", ast.Num("7"), ast.Num("0.5")),
		// a failing call whose argument is a call of a function that itself makes a call on another line
		"printf-kind-after-call-argument": ast.Call(ast.Id("printf"), ast.Str("%s|"), ast.Call(ast.Id("c11len"), ast.Str("ab"))),
		"call-number-after-call-argument": ast.Call(ast.Num("5"), ast.Call(ast.Id("c11len"), ast.Arr(ast.Num("1")))),
		// a name bound by a match pattern (or a parameter) that holds a non-function and shadows a
		// function of the program: calling it is calling a non-function
		"call-match-bound-name-that-shadows-a-function": ast.Match(ast.Num("5"), ast.Case(ast.Call(ast.Id("c11fun")), ast.Id("c11fun"))),
		"call-parameter-that-shadows-a-function-at-a-site": ast.Call(ast.Id("c11shadow"), ast.Str("not a function")),
		// a fault anchored at a bare $
		"dollar-call-null": ast.Method(ast.Mem(ast.Dollar(), "c11none"), "nosuch"),
	}
}

func c11StmtKits() map[string][]*ast.Node {
	set := func(n string, v *ast.Node) *ast.Node { return ast.ExprS(ast.Set(ast.Id(n), v)) }
	return map[string][]*ast.Node{
		"forin-number":     {ast.ForIn("c11e", "", ast.Num("5"), ast.Block())},
		"member-on-number": {set("c11n", ast.Num("5")), ast.ExprS(ast.Set(ast.Mem(ast.Id("c11n"), "k"), ast.Num("1")))},
		"incdec-on-number": {set("c11n", ast.Num("5")), ast.ExprS(ast.Post("++", ast.Mem(ast.Id("c11n"), "k")))},
		// the member is named like a method of the receiver's own kind
		"method-named-member-on-number":          {set("c11n", ast.Num("5")), ast.ExprS(ast.Set(ast.Mem(ast.Id("c11n"), "floor"), ast.Num("1")))},
		"method-named-member-on-string":          {set("c11s", ast.Str("abc")), ast.ExprS(ast.Set(ast.Mem(ast.Id("c11s"), "length"), ast.Num("1")))},
		"method-named-member-on-array":           {set("c11a", ast.Arr(ast.Num("1"))), ast.ExprS(ast.Set(ast.Mem(ast.Id("c11a"), "push"), ast.Num("1")))},
		"incdec-on-method-named-member":          {set("c11n", ast.Num("5")), ast.ExprS(ast.Post("++", ast.Mem(ast.Id("c11n"), "round")))},
		"compound-on-method-named-member":        {set("c11s", ast.Str("abc")), ast.ExprS(ast.Asg("+=", ast.Mem(ast.Id("c11s"), "upper"), ast.Num("1")))},
		// a container compared with itself (through one name, through an alias, as an element)
		"compare-array-with-itself":     {set("c11a", ast.Arr(ast.Num("1"))), set("c11t", ast.Bin("==", ast.Id("c11a"), ast.Id("c11a")))},
		"compare-object-with-its-alias": {set("c11o", ast.Obj(ast.KV("k", ast.Num("1")))), set("c11p", ast.Id("c11o")), set("c11t", ast.Bin("<=", ast.Id("c11o"), ast.Id("c11p")))},
		"contains-own-container-element": {set("c11a", ast.Arr(ast.Arr(ast.Num("1")))), set("c11t", ast.Method(ast.Id("c11a"), "contains", ast.Idx(ast.Id("c11a"), ast.Num("0"))))},
		// an index before the start of an array that is empty (read, store, ++)
		"index-before-start-of-empty-array-read":  {set("c11a", ast.Arr()), set("c11t", ast.Idx(ast.Id("c11a"), ast.Un("-", ast.Num("1"))))},
		"index-before-start-of-empty-array-store": {set("c11a", ast.Arr(ast.Num("1"))), set("c11t", ast.Method(ast.Id("c11a"), "pop")), ast.ExprS(ast.Set(ast.Idx(ast.Id("c11a"), ast.Un("-", ast.Num("1"))), ast.Num("1")))},
		"index-before-start-of-empty-array-incr":  {set("c11a", ast.Arr()), ast.ExprS(ast.Post("++", ast.Idx(ast.Id("c11a"), ast.Un("-", ast.Num("2")))))},
		// an index of a kind no object accepts, on an object that has a member under the empty key
		"bad-kind-index-on-object-with-empty-key-read":  {set("c11o", ast.Obj(ast.KVs("", ast.Num("1")))), set("c11t", ast.Idx(ast.Id("c11o"), ast.True()))},
		"bad-kind-index-on-object-with-empty-key-store": {set("c11o", ast.Obj(ast.KVs("", ast.Num("1")))), ast.ExprS(ast.Set(ast.Idx(ast.Id("c11o"), ast.Arr(ast.Num("1"))), ast.Num("2")))},
		"string-index-on-array": {set("c11a", ast.Arr()), ast.ExprS(ast.Set(ast.Idx(ast.Id("c11a"), ast.Str("x")), ast.Num("1")))},
		"index-too-large":  {set("c11a", ast.Arr()), ast.ExprS(ast.Set(ast.Idx(ast.Id("c11a"), ast.Num("3000000")), ast.Num("1")))},
		"forin-unset":      {ast.ForIn("c11e", "", ast.Id("c11unset"), ast.Block())},
		"compound-div-zero": {set("c11d", ast.Num("6")), ast.ExprS(ast.Asg("/=", ast.Id("c11d"), ast.Num("0")))},
		"compound-on-member-of-number": {set("c11n", ast.Num("5")), ast.ExprS(ast.Asg("+=", ast.Mem(ast.Id("c11n"), "k"), ast.Num("1")))},
		"compound-bad-operand": {set("c11d", ast.Num("6")), ast.ExprS(ast.Asg("*=", ast.Id("c11d"), ast.Bin("<", ast.Arr(), ast.Num("1"))))},
		// one ~ site evaluated with a good regex value first and an invalid one afterwards
		"bad-regex-second-time-at-a-site": {set("c11r", ast.Regex("a")), set("c11t", ast.Call(ast.Id("c11m"), ast.Str("a"), ast.Id("c11r"))),
			set("c11r", ast.Regex("(")), set("c11t", ast.Call(ast.Id("c11m"), ast.Str("a"), ast.Id("c11r")))},
		"bad-pattern-string-second-time-at-a-site": {set("c11t", ast.Call(ast.Id("c11m"), ast.Str("a"), ast.Str("a"))), set("c11t", ast.Call(ast.Id("c11m"), ast.Str("a"), ast.Str("[")))},
	}
}

// c11Slots enumerates the expression slots and the statement positions of a program.
func c11Slots(prog *ast.Node) (exprSlots []c11Slot, stmtSlots []c11Slot) {
	var walk func(n *ast.Node, ctx string)
	add := func(p *ast.Node, i int, kind string) {
		if p.C[i] != nil {
			exprSlots = append(exprSlots, c11Slot{p, i, kind})
		}
	}
	walk = func(n *ast.Node, ctx string) {
		if n == nil {
			return
		}
		switch n.K {
		case "prog":
			for _, it := range n.C {
				walk(it, "")
			}
			return
		case "func":
			walk(n.C[0], "function")
			return
		case "rule":
			if n.C[0] != nil {
				add(n, 0, "rule-pattern")
				walk(n.C[0], ctx)
			}
			walk(n.C[1], "rule")
			return
		case "block":
			for i := range n.C {
				stmtSlots = append(stmtSlots, c11Slot{n, i, "statement@" + ctx})
				walk(n.C[i], ctx)
			}
			stmtSlots = append(stmtSlots, c11Slot{n, len(n.C), "statement@" + ctx})
			return
		case "expr":
			add(n, 0, "expr-statement")
		case "print":
			for i := range n.C {
				add(n, i, "print-arg")
			}
		case "return":
			if len(n.C) > 0 {
				add(n, 0, "return-value")
			}
		case "if":
			add(n, 0, "if-cond")
			walk(n.C[0], ctx)
			walk(n.C[1], ctx)
			if len(n.C) > 2 {
				walk(n.C[2], ctx)
			}
			return
		case "while":
			add(n, 0, "while-cond")
			walk(n.C[0], ctx)
			walk(n.C[1], "loop")
			return
		case "for":
			add(n, 0, "for-init")
			add(n, 1, "for-cond")
			add(n, 2, "for-post")
			walk(n.C[0], ctx)
			walk(n.C[1], ctx)
			walk(n.C[2], ctx)
			walk(n.C[3], "loop")
			return
		case "forin":
			add(n, 0, "forin-iterable")
			walk(n.C[0], ctx)
			walk(n.C[1], "loop")
			return
		case "bin":
			add(n, 0, "operand-left")
			if n.S == "&&" || n.S == "||" {
				add(n, 1, "short-circuit-right")
			} else {
				add(n, 1, "operand-right")
			}
		case "un":
			add(n, 0, "unary-operand")
		case "is":
			add(n, 0, "is-operand")
		case "asg":
			if n.S == "=" {
				add(n, 1, "assign-value")
			} else {
				add(n, 1, "compound-assign-value")
			}
			walk(n.C[1], ctx)
			// the target's own index expressions are slots too
			walk(n.C[0], ctx)
			return
		case "mem":
			add(n, 0, "member-base")
		case "idx":
			add(n, 0, "index-base")
			add(n, 1, "index-expr")
		case "call":
			kind := "call-arg"
			if n.C[0].K == "id" && n.C[0].S == "printf" {
				kind = "printf-arg"
			}
			for i := 1; i < len(n.C); i++ {
				add(n, i, kind)
			}
		case "arr":
			for i := range n.C {
				add(n, i, "array-element")
			}
		case "obj":
			for _, kv := range n.C {
				add(kv, 0, "object-value")
				walk(kv.C[0], ctx)
			}
			return
		case "match":
			add(n, 0, "match-subject")
			walk(n.C[0], ctx)
			for _, cs := range n.C[1:] {
				for pi := 0; pi < cs.N; pi++ {
					switch cs.C[pi].K {
					case "num", "str", "true", "false", "null":
						exprSlots = append(exprSlots, c11Slot{cs, pi, "match-literal-pattern"})
					}
				}
				body := cs.C[cs.N]
				if body.K == "block" {
					walk(body, "match-block")
				} else {
					add(cs, cs.N, "match-case-body")
					walk(body, ctx)
				}
			}
			return
		case "pre", "post":
			// the target is not an expression slot
			return
		}
		for _, c := range n.C {
			walk(c, ctx)
		}
	}
	walk(prog, "")
	return
}

type C11Fault struct {
	Case *DCase `json:"case"` // the faulted program
	Kit  string `json:"kit"`
	Slot string `json:"slot"`
}

func sortedKeys[T any](m map[string]T) []string {
	var ks []string
	for k := range m {
		ks = append(ks, k)
	}
	for i := 1; i < len(ks); i++ {
		for j := i; j > 0 && ks[j] < ks[j-1]; j-- {
			ks[j], ks[j-1] = ks[j-1], ks[j]
		}
	}
	return ks
}

// c11Base draws a valid, terminating, tracing program.
func c11Base(t *rapid.T) *DCase {
	var c *DCase
	switch rapid.IntRange(0, 3).Draw(t, "source") {
	case 0:
		c, _ = genC07(t, 3)
	case 1:
		c, _ = genC08(t)
	case 2:
		c, _ = genC19(t)
	default:
		c, _ = genC07(t, 4)
	}
	// every program gets a function for the json kit and a BEGIN rule that prints first
	items := []*ast.Node{
		ast.Func("c11fun", nil, ast.Block(ast.Return(ast.Num("1")))),
		ast.Func("c11len", []string{"c11v"}, ast.Block(ast.ExprS(ast.Set(ast.Id("c11w"), ast.Method(ast.Id("c11v"), "length"))), ast.Return(ast.Id("c11w")))),
		ast.Func("c11m", []string{"c11s", "c11p"}, ast.Block(ast.Return(ast.Bin("~", ast.Id("c11s"), ast.Id("c11p"))))),
		ast.Func("c11shadow", []string{"c11fun"}, ast.Block(ast.Return(ast.Call(ast.Id("c11fun"))))),
		ast.Rule("BEGIN", nil, ast.Block(ast.Print(ast.Str("start")))),
	}
	c.Prog = ast.Prog(append(items, c.Prog.C...)...)
	return c
}

func genC11Fault(t *rapid.T) (*C11Fault, *DCase) {
	base := c11Base(t)
	faulted := &DCase{Prog: base.Prog.Clone(), Files: base.Files, Sel: base.Sel}
	exprSlots, stmtSlots := c11Slots(faulted.Prog)
	f := &C11Fault{Case: faulted}
	// choose uniformly over slot KINDS first, so that rare kinds are not starved
	if rapid.IntRange(0, 5).Draw(t, "stmtkit") == 0 && len(stmtSlots) > 0 {
		kits := c11StmtKits()
		names := sortedKeys(kits)
		f.Kit = rapid.SampledFrom(names).Draw(t, "skit")
		byKind := map[string][]c11Slot{}
		for _, s := range stmtSlots {
			byKind[s.kind] = append(byKind[s.kind], s)
		}
		kind := rapid.SampledFrom(sortedKeys(byKind)).Draw(t, "sslotkind")
		s := byKind[kind][rapid.IntRange(0, len(byKind[kind])-1).Draw(t, "sslot")]
		f.Slot = kind
		var ins []*ast.Node
		for _, st := range kits[f.Kit] {
			ins = append(ins, st.Clone())
		}
		blk := s.parent
		blk.C = append(blk.C[:s.index:s.index], append(ins, blk.C[s.index:]...)...)
		return f, base
	}
	if rapid.IntRange(0, 9).Draw(t, "selectorkit") == 0 {
		kits := c11ExprKits()
		f.Kit = rapid.SampledFrom(sortedKeys(kits)).Draw(t, "selkit")
		if f.Kit == "json-function" {
			f.Kit = "div-zero" // selectors do not see the program's functions
		}
		f.Slot = "selector"
		faulted.Sel = []*ast.Node{kits[f.Kit].Clone()}
		base.Sel = []*ast.Node{ast.Dollar()}
		return f, base
	}
	byKind := map[string][]c11Slot{}
	for _, s := range exprSlots {
		byKind[s.kind] = append(byKind[s.kind], s)
	}
	kind := rapid.SampledFrom(sortedKeys(byKind)).Draw(t, "slotkind")
	s := byKind[kind][rapid.IntRange(0, len(byKind[kind])-1).Draw(t, "slot")]
	kits := c11ExprKits()
	f.Slot = kind
	if kind == "match-literal-pattern" {
		f.Kit = "bad-escape"
	} else {
		f.Kit = rapid.SampledFrom(sortedKeys(kits)).Draw(t, "kit")
	}
	kit := kits[f.Kit].Clone()
	if kind == "expr-statement" {
		// an expression statement has to start with a name (a leading '(' or '['
		// would continue the previous statement's expression)
		kit = ast.Set(ast.Id("c11x"), kit)
	}
	s.parent.C[s.index] = kit
	return f, base
}

// ---- (a) syntax splice ---------------------------------------------------------------------------

type C11Splice struct {
	Src    string `json:"src"`
	Files  []DFile `json:"files,omitempty"`
	Recipe string `json:"recipe"`
}

func c11SpliceCheck(c *C11Splice) string {
	var files []run.InFile
	for _, f := range c.Files {
		files = append(files, run.InFile{Name: f.Name, Data: []byte(strings.Join(f.Docs, "\n"))})
	}
	o := run.InProc(c.Src, files, nil, run.Opts{Budget: implBudget})
	if o.Class != "syntax" {
		return fmt.Sprintf("a program with a syntax error (%s) ended with outcome %s (%s%s) and %d bytes of output", c.Recipe, o.Class, o.Msg, o.Panic, len(o.Stdout))
	}
	if len(o.Stdout) != 0 {
		return fmt.Sprintf("a program with a syntax error (%s) produced output before the error was reported: %q", c.Recipe, clip(string(o.Stdout)))
	}
	return ""
}

// stmtPositions returns, for every statement of every block, the index of its
// first token, with its context.
type c11Pos struct {
	tok        int
	inFunction bool
	loops      int
	blockStart bool
}

func c11StmtPositions(prog *ast.Node, r *ast.Rendering) []c11Pos {
	var out []c11Pos
	var walk func(n *ast.Node, inFn bool, loops int)
	walk = func(n *ast.Node, inFn bool, loops int) {
		if n == nil {
			return
		}
		switch n.K {
		case "func":
			walk(n.C[0], true, 0)
			return
		case "block":
			for i, s := range n.C {
				if tk, ok := r.First[s]; ok {
					out = append(out, c11Pos{tk, inFn, loops, i == 0})
				}
				walk(s, inFn, loops)
			}
			return
		case "while", "for", "forin":
			// only the body is "inside the loop": the clauses of the header are not
			for i, c := range n.C {
				if i == len(n.C)-1 {
					walk(c, inFn, loops+1)
				} else {
					walk(c, inFn, loops)
				}
			}
			return
		}
		for _, c := range n.C {
			walk(c, inFn, loops)
		}
	}
	walk(prog, false, 0)
	return out
}

func insertToks(r *ast.Rendering, at int, toks ...ast.Tok) []ast.Tok {
	out := append([]ast.Tok{}, r.Toks[:at]...)
	out = append(out, toks...)
	return append(out, r.Toks[at:]...)
}

func genC11Splice(t *rapid.T) *C11Splice {
	base := c11Base(t)
	r := ast.Render(base.Prog, ast.Full)
	raw := func(s string) ast.Tok { return ast.Tok{Text: s, Kind: ast.TRaw} }
	sep := ast.Tok{Kind: ast.TSep}
	positions := c11StmtPositions(base.Prog, r)
	recipe := rapid.SampledFrom([]string{"illegal-char", "stray-token", "return-at-rule-level", "break-outside-loop", "continue-outside-loop",
		"invalid-assignment", "unterminated-string", "unterminated-regex", "unbalanced-curly", "loop-control-in-loop-header", "invalid-assignment", "for-in-without-in", "ends-mid-construct"}).Draw(t, "recipe")
	var toks []ast.Tok
	pickPos := func(filter func(p c11Pos) bool) (c11Pos, bool) {
		var cands []c11Pos
		for _, p := range positions {
			if filter(p) {
				cands = append(cands, p)
			}
		}
		if len(cands) == 0 {
			return c11Pos{}, false
		}
		return cands[rapid.IntRange(0, len(cands)-1).Draw(t, "pos")], true
	}
	fallback := false
	switch recipe {
	case "illegal-char":
		ch := rapid.SampledFrom([]string{"@", "^", "?", "`", "&", "|", "\\", "\x01", "\x7f", "\x00", "\x00",
			// bytes that other tools count as blanks (vertical tab, form feed, NEL, no-break space), other
			// control bytes, and letters whose UTF-8 form ends in such a byte
			"\x0b", "\x0c", "\x85", "\xa0", "\x08", "\x0e", "\x1b", "\x1f", "\xad", "\xb7", "à", "Å", "\xc2\xa0", "\xe2\x80\x83"}).Draw(t, "char")
		// any token boundary, the very end included; never directly in front of a
		// separator's neighbour inside a string (tokens are atomic, so no such place exists)
		at := rapid.IntRange(0, len(r.Toks)).Draw(t, "boundary")
		if rapid.IntRange(0, 3).Draw(t, "afterkeyword") == 0 {
			// directly after a statement that is one control keyword (the next token starts a new line)
			var cands []int
			for i, tk := range r.Toks {
				switch tk.Text {
				case "next", "exit", "break", "continue", "return":
					if tk.Kind == ast.TWord && i+1 < len(r.Toks) && r.Toks[i+1].Kind == ast.TSep {
						cands = append(cands, i+2)
					}
				}
			}
			if len(cands) > 0 {
				at = cands[rapid.IntRange(0, len(cands)-1).Draw(t, "kwboundary")]
			}
		}
		toks = insertToks(r, at, raw(ch))
		recipe += ":" + fmt.Sprintf("%q", ch)
	case "stray-token":
		tk := rapid.SampledFrom([]string{")", "]", "=>", ":", "}"}).Draw(t, "stray")
		p, ok := pickPos(func(c11Pos) bool { return true })
		if !ok || tk == "}" {
			// a stray '}' is an error at rule level: put it at the very beginning
			toks = insertToks(r, 0, raw(tk))
		} else {
			toks = insertToks(r, p.tok, raw(tk), sep)
		}
		recipe += ":" + tk
	case "return-at-rule-level":
		p, ok := pickPos(func(p c11Pos) bool { return !p.inFunction })
		if !ok {
			fallback = true
			break
		}
		toks = insertToks(r, p.tok, ast.Tok{Text: "return", Kind: ast.TWord}, sep)
	case "break-outside-loop", "continue-outside-loop":
		p, ok := pickPos(func(p c11Pos) bool { return p.loops == 0 })
		if !ok {
			fallback = true
			break
		}
		toks = insertToks(r, p.tok, ast.Tok{Text: strings.SplitN(recipe, "-", 2)[0], Kind: ast.TWord}, sep)
	case "loop-control-in-loop-header":
		// break / continue in a match block that sits in the header of a loop which is
		// itself not inside a loop: the header is not part of the loop's body
		p, ok := pickPos(func(p c11Pos) bool { return p.loops == 0 })
		if !ok {
			fallback = true
			break
		}
		kw := rapid.SampledFrom([]string{"break", "continue"}).Draw(t, "lckw")
		m := "match ( 1 ) { c11w => { " + kw + " } }"
		form := rapid.SampledFrom([]string{
			"while ( " + m + " ) { }",
			"for ( c11i = " + m + " ; false ; ) { }",
			"for ( ; " + m + " ; ) { }",
			"for ( c11i = 0 ; false ; " + m + " ) { }",
			"for ( c11v in " + m + " ) { }",
			"for ( c11v , c11k in " + m + " ) { }",
			"while ( false ) { } " + kw,
		}).Draw(t, "lcform")
		toks = insertToks(r, p.tok, raw(form), sep)
		recipe += ":" + form
	case "for-in-without-in":
		p, ok := pickPos(func(c11Pos) bool { return true })
		if !ok {
			fallback = true
			break
		}
		form := rapid.SampledFrom([]string{"for ( c11v [ 1 , 2 ] ) { }", "for ( c11v , c11k [ 1 , 2 ] ) { }", "for ( c11v , c11k of [ 1 ] ) { }", "for ( c11v c11k in [ 1 ] ) { }"}).Draw(t, "finform")
		toks = insertToks(r, p.tok, raw(form), sep)
		recipe += ":" + form
	case "invalid-assignment":
		form := rapid.SampledFrom([]string{"1 = 2", "\"s\" = 2", "a + b = 2", "[ a ] = 2", "( a == b ) = 2", "true = 1", "{ } = 2",
			"1 += 2", "a + b -= 2", "\"s\" *= 2", "x = - a = 3", "x = ! a = 3", "x = - a += 3", "1 ++", "x = 2 --", "++ 1", "x = -- \"s\"", "a ( ) = 3", "x = a ( ) ++", "null /= 2", "x = a is number = 2",
			"x = match ( 1 ) { c11w => 2 } = 3", "a . b ( ) += 1", "x = [ 1 ] ++", "x = ( a + b ) ++", "++ ( a . b ( ) )"}).Draw(t, "target")
		needStart := strings.HasPrefix(form, "[") || strings.HasPrefix(form, "(") || strings.HasPrefix(form, "{") || strings.HasPrefix(form, "++")
		p, ok := pickPos(func(p c11Pos) bool { return !needStart || p.blockStart })
		if !ok {
			fallback = true
			break
		}
		if strings.HasPrefix(form, "{") {
			// `{ } = 2` as a statement is a block followed by `= 2`
			form = "x = { } = 2"
		}
		toks = insertToks(r, p.tok, raw(form), sep)
		recipe += ":" + form
	case "unterminated-string":
		q := rapid.SampledFrom([]string{"\"", "'"}).Draw(t, "quote")
		toks = insertToks(r, len(r.Toks), raw(q+"abc"))
	case "unterminated-regex":
		toks = insertToks(r, len(r.Toks), raw("/abc"))
	case "ends-mid-construct":
		// the program text stops in the middle of a construct, on the very last byte
		tail := rapid.SampledFrom([]string{"$ > 1.", "c11x = 10.", "c11x .", "$ .", "c11x [", "c11f (", "1 +", "c11x =", "c11x = !", "c11x = -", "c11x = [ 1 ,", "c11x = { a :", "c11x = { a", "match ( 1 ) {", "if (", "for ( c11v in", "function", "function c11g (", "c11x = 1 is"}).Draw(t, "midtail")
		toks = insertToks(r, len(r.Toks), raw(tail))
		recipe += ":" + tail
	case "unbalanced-curly":
		if rapid.Bool().Draw(t, "atend") {
			toks = insertToks(r, len(r.Toks), raw("{"))
		} else if p, ok := pickPos(func(c11Pos) bool { return true }); ok {
			toks = insertToks(r, p.tok, raw("{"))
		} else {
			toks = insertToks(r, len(r.Toks), raw("{"))
		}
	}
	if fallback {
		toks = insertToks(r, len(r.Toks), raw("@"))
		recipe = "illegal-char:\"@\""
	}
	r2 := &ast.Rendering{Toks: toks}
	src := r2.Join(ast.Canonical{}).Src
	if strings.HasPrefix(recipe, "ends-mid-construct") {
		src = strings.TrimRight(src, " \t\r\n")
	}
	return &C11Splice{Src: src, Files: base.Files, Recipe: recipe}
}

func TestC11(t *testing.T) {
	rec := start(t, "C11", "fault_enumeration",
		"(a) syntax splice: a valid, terminating program whose BEGIN rule prints first (from the C07/C08/C19 generators) x a splice position (any token boundary for illegal characters; any statement start, filtered by context, for the others) x a recipe that is a syntax error by the grammar: illegal character, stray ) ] => : , }, return at rule level, break/continue outside any loop, invalid assignment targets (1 = 2, \"s\" = 2, a + b = 2, [a] = 2, (a == b) = 2, true = 1), unterminated string or regex, unbalanced {. Oracle: outcome SyntaxError and not one byte of output. (b) runtime fault injection: one expression slot of the program (chosen uniformly over slot kinds: rule pattern, expression statement, operand slots, call / printf argument, array element, object value, index expression, member base, if / while condition, for init / condition / post, for-in iterable, match subject / literal pattern / case body, return value, print argument, assignment and compound-assignment value, short-circuit right operand, selector) is replaced by one of 21 fault kits, or a statement kit (11) is inserted at a statement position (rule, function, loop, match block). Oracle: refjq runs the faulted program: if the slot is reached the run must end in RuntimeError with exactly the output produced before; if the slot is dead the program must behave as without the fault. Non-trivial: (a) always; (b) the fault is reached after >= 1 line was printed and >= 1 further line would have followed. distinct = (kit, slot kind, program).")
	defer rec.Finish()
	rec.Assume("refjq decides whether the faulted slot is evaluated; every kit is a runtime error by the documents (division by zero, calling a non-function, invalid regex, comparing containers, unknown $-variable, bad printf arguments, missing method arguments, index before the start, invalid escape, copying a function, iterating a non-iterable, storing a member on a scalar, string index on an array, index beyond the fill limit)")
	rec.Replayer("fault", func(raw json.RawMessage) error {
		var f C11Fault
		if err := json.Unmarshal(raw, &f); err != nil {
			return err
		}
		d := differential(f.Case, false)
		if d.Verdict == "fail" {
			return fmt.Errorf("kit %s in slot %s: %s\nprogram:\n%s", f.Kit, f.Slot, d.Reason, d.Src)
		}
		return nil
	})
	rec.Replayer("splice", func(raw json.RawMessage) error {
		var c C11Splice
		if err := json.Unmarshal(raw, &c); err != nil {
			return err
		}
		if m := c11SpliceCheck(&c); m != "" {
			return fmt.Errorf("%s\nprogram:\n%s", m, c.Src)
		}
		return nil
	})
	if rec.ReplayOnly() {
		return
	}
	excl.ArrayAlias = rec.KnownActive("KF-array-alias", false)
	rec.ReplayTier()

	check(rec, "splice-random", scale(6000, 2000000), func(rt *rapid.T) {
		c := genC11Splice(rt)
		msg := c11SpliceCheck(c)
		kind := strings.SplitN(c.Recipe, ":", 2)[0]
		rec.Case(c.Src, true, "splice", "recipe:"+kind)
		rec.Sample(func() interface{} { return map[string]interface{}{"recipe": c.Recipe, "program": c.Src} })
		if msg != "" {
			rec.Pending("splice", c, c.Src, msg)
			rt.Fatalf("%s\n%s", msg, c.Src)
		}
	})

	check(rec, "fault-random", scale(12000, 4000000), func(rt *rapid.T) {
		f, base := genC11Fault(rt)
		d := differential(f.Case, false)
		switch d.Verdict {
		case "discard":
			rec.Discard(d.Reason)
			return
		case "excluded":
			rec.Excluded(d.Reason)
			return
		}
		// non-trivial: reached after output, with more output pending
		nt := false
		reached := d.Ref.Class == "runtime"
		if reached && len(d.Ref.Out) > len("start\n") {
			rf, _ := base.refFiles()
			un := ref.Run(ref.Config{Prog: base.Prog, Selectors: base.Sel, Files: rf, Excl: excl})
			if un.Class == "ok" && len(un.Out) > len(d.Ref.Out) {
				nt = true
			}
		}
		lab := "fault-dead"
		if reached {
			lab = "fault-reached"
		}
		rec.Case(d.Src+strings.Join(f.Case.SelSources(), "|"), nt, lab, "kit:"+f.Kit, "slot:"+f.Slot, "cell:"+f.Kit+"/"+f.Slot)
		rec.Sample(func() interface{} {
			m := f.Case.describe()
			m["kit"], m["slot"], m["expected_outcome"], m["expected_stdout"] = f.Kit, f.Slot, d.Ref.Class, clip(string(d.Ref.Out))
			return m
		})
		if d.Verdict == "fail" {
			msg := fmt.Sprintf("kit %s in slot %s: %s", f.Kit, f.Slot, d.Reason)
			rec.Pending("fault", f, d.Src, msg)
			rt.Fatalf("%s\nprogram:\n%s", msg, d.Src)
		}
	})
}
