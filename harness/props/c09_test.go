package props

import (
	"encoding/json"
	"fmt"
	"testing"

	"verif/harness/ast"
	"verif/harness/gen"
	"verif/harness/jsonx"
	"verif/harness/ref"
	"verif/harness/run"

	"pgregory.net/rapid"
)

// C09 — assignment changes exactly the addressed location; reads never change
// the input (DESIGN.md 4.3). A state machine appends one action per step to a
// straight-line program; after every action every variable and $ are dumped, and
// at the end the root is compared with the reference root.

type c09Gen struct {
	t      *rapid.T
	labels map[string]bool
	stmts  []*ast.Node
	step   int
	files  []DFile
	guard  *ast.Node // rule pattern (nil, or $index == 0 for array roots)
	uset   map[string]bool
	cur    *ref.Result // reference state before the action being generated
}

func (g *c09Gen) n(lo, hi int, l string) int { return rapid.IntRange(lo, hi).Draw(g.t, l) }
func (g *c09Gen) b(l string) bool           { return rapid.Bool().Draw(g.t, l) }

var c09Vars = []string{"v0", "v1", "v2", "v3"}
var c09Unset = []string{"u0", "u1"}

func c09Funcs() []*ast.Node {
	return []*ast.Node{
		ast.Func("setm", []string{"o", "k", "v"}, ast.Block(ast.ExprS(ast.Set(ast.Idx(ast.Id("o"), ast.Id("k")), ast.Id("v"))))),
		ast.Func("bump", []string{"x"}, ast.Block(ast.ExprS(ast.Set(ast.Id("x"), ast.Bin("+", ast.Id("x"), ast.Num("1")))), ast.Return(ast.Id("x")))),
		ast.Func("pushv", []string{"a", "v"}, ast.Block(ast.ExprS(ast.Method(ast.Id("a"), "push", ast.Id("v"))))),
		ast.Func("getm", []string{"o", "k"}, ast.Block(ast.Return(ast.Idx(ast.Id("o"), ast.Id("k"))))),
		ast.Func("locals", []string{"la", "li", "lt", "lu"}, ast.Block(ast.ExprS(ast.Set(ast.Id("li"), ast.Num("5"))), ast.ExprS(ast.Set(ast.Id("lt"), ast.Bin("+", ast.Id("lt"), ast.Str("t")))), ast.ExprS(ast.Post("++", ast.Id("lu"))), ast.Return(ast.Arr(ast.Id("la"), ast.Id("li"), ast.Id("lt"), ast.Id("lu"))))),
		ast.Func("three", []string{"p1", "p2", "p3"}, ast.Block(ast.Return(ast.Arr(ast.Id("p1"), ast.Id("p2"), ast.Id("p3"))))),
	}
}

func (g *c09Gen) program(extra ...*ast.Node) *DCase {
	stmts := append(append([]*ast.Node{}, g.stmts...), extra...)
	items := c09Funcs()
	items = append(items, ast.Rule("pattern", g.guard, ast.Block(stmts...)))
	return &DCase{Prog: ast.Prog(items...), Files: g.files}
}

// state runs the reference on the program so far.
func (g *c09Gen) state(extra ...*ast.Node) ref.Result {
	c := g.program(extra...)
	rf, _ := c.refFiles()
	return ref.Run(ref.Config{Prog: c.Prog, Files: rf, Excl: excl})
}

func (g *c09Gen) scalar() *ast.Node {
	return rapid.SampledFrom([]*ast.Node{ast.Num("0"), ast.Num("5"), ast.Num("2.5"), ast.Str("t"), ast.Str(""), ast.True(), ast.False(), ast.Null(), ast.Un("-", ast.Num("3"))}).Draw(g.t, "scalar").Clone()
}

func (g *c09Gen) container() *ast.Node {
	switch g.n(0, 5, "cont") {
	case 0:
		return ast.Arr()
	case 1:
		return ast.Paren(ast.Obj())
	case 2:
		return ast.Arr(g.scalar(), g.scalar())
	case 3:
		return ast.Paren(ast.Obj(ast.KV("a", g.scalar()), ast.KV("d", ast.Arr(g.scalar()))))
	case 4:
		return ast.Arr(ast.Arr(g.scalar()), ast.Obj(ast.KV("a", g.scalar())))
	default:
		return ast.Paren(ast.Obj(ast.KV("b", ast.Obj(ast.KV("c", g.scalar())))))
	}
}

// value to store: scalar, fresh container, or an alias of an existing container.
func (g *c09Gen) value(globals map[string]ref.V) *ast.Node {
	if g.cur != nil && g.n(0, 6, "fromread") == 0 {
		// the value read from another (possibly missing) path: the copy must not stay
		// connected to the place it was read from
		g.labels["value-from-path-read"] = true
		base := rapid.SampledFrom([]string{"v2", "v3"}).Draw(g.t, "rdbase")
		return g.chain(ast.Id(base), g.cur.Globals[base], true, g.n(1, 2, "rddepth"))
	}
	switch g.n(0, 5, "vkind") {
	case 0, 1, 2:
		return g.scalar()
	case 3:
		return g.container()
	default:
		var cands []string
		for _, v := range c09Vars {
			if k := globals[v].K; k == ref.KArr || k == ref.KObj {
				cands = append(cands, v)
			}
		}
		if len(cands) == 0 {
			return g.container()
		}
		g.labels["alias-store"] = true
		return ast.Id(cands[g.n(0, len(cands)-1, "alias")])
	}
}

var c09Keys = []string{"a", "b", "c", "d", "n"}

// chain extends base (currently holding cur) by 1..depth member/index links.
func (g *c09Gen) chain(base *ast.Node, cur ref.V, exists bool, depth int) *ast.Node {
	e := base
	for d := 0; d < depth; d++ {
		switch {
		case exists && cur.K == ref.KArr:
			n := len(cur.A.E)
			cls := g.n(0, 11, "idxclass")
			var idx int
			frac, negfrac := false, false
			switch {
			case cls <= 3 && n > 0:
				idx = g.n(0, n-1, "inrange")
				g.labels["index-in-range"] = true
			case cls <= 5 && n > 0:
				idx = -g.n(1, n, "neg")
				g.labels["index-negative"] = true
			case cls == 6:
				idx = n
				g.labels["index-at-len"] = true
			case cls <= 8:
				idx = n + g.n(1, 3, "past")
				g.labels["index-past-end"] = true
			case cls == 9:
				idx = -(n + g.n(1, 2, "before"))
				g.labels["index-before-start"] = true
			case cls == 10 && n > 0:
				idx = g.n(0, n-1, "fracbase")
				frac = true
				if g.n(0, 2, "negfrac") == 0 {
					// a negative fraction: -0.5 is element 0, -1.5 the last one (truncation, then counting from the end)
					idx = -idx
					negfrac = true
				}
				g.labels["index-fractional"] = true
			default:
				idx = 0
			}
			var ie *ast.Node
			if negfrac {
				ie = ast.Un("-", ast.Num(fmt.Sprintf("%d.5", -idx)))
			} else if idx < 0 {
				ie = ast.Un("-", ast.Num(fmt.Sprint(-idx)))
			} else if frac {
				ie = ast.Num(fmt.Sprintf("%d.5", idx))
			} else {
				ie = ast.Num(fmt.Sprint(idx))
			}
			e = ast.Idx(e, ie)
			k := idx
			if k < 0 {
				k += n
			}
			if k >= 0 && k < n {
				cur = cur.A.E[k].V
			} else {
				exists = false
			}
		case exists && cur.K == ref.KObj:
			var key string
			if len(cur.O.Keys) > 0 && g.n(0, 2, "existingkey") > 0 {
				key = cur.O.Keys[g.n(0, len(cur.O.Keys)-1, "key")]
			} else {
				key = c09Keys[g.n(0, len(c09Keys)-1, "newkey")]
			}
			if ast.Keywords[key] || !isIdent(key) || g.n(0, 4, "bracket") == 0 {
				e = ast.Idx(e, ast.Str(key))
			} else {
				e = ast.Mem(e, key)
			}
			if l := cur.O.Get(key); l != nil {
				cur = l.V
			} else {
				exists = false
				g.labels["missing-member"] = true
			}
		default:
			// below something missing / scalar / null: auto-creation territory
			if exists && cur.K != ref.KUnset && g.n(0, 9, "throughscalar") > 0 {
				// storing through an existing scalar is an error: keep it rare
				return e
			}
			if g.b("numkey") {
				e = ast.Idx(e, ast.Num(fmt.Sprint(g.n(0, 2, "newidx"))))
			} else {
				e = ast.Mem(e, c09Keys[g.n(0, len(c09Keys)-1, "deepkey")])
			}
			if exists && cur.K != ref.KUnset {
				g.labels["through-scalar"] = true
			}
			exists = false
			if d >= 1 {
				g.labels["deep-autocreate"] = true
			}
		}
		if d+1 < depth && g.n(0, 2, "stop") == 0 {
			break
		}
	}
	return e
}

func isIdent(s string) bool {
	if s == "" {
		return false
	}
	for i, c := range s {
		if !(c == '_' || c >= 'a' && c <= 'z' || c >= 'A' && c <= 'Z' || i > 0 && c >= '0' && c <= '9') {
			return false
		}
	}
	return true
}

// target picks an assignment target: a variable, an unset name, or $, extended
// by a chain.
func (g *c09Gen) target(st ref.Result, minDepth int) *ast.Node {
	depth := g.n(minDepth, 4, "depth")
	switch g.n(0, 9, "base") {
	case 0, 1, 2, 3, 4:
		v := c09Vars[g.n(0, len(c09Vars)-1, "var")]
		if depth == 0 {
			return ast.Id(v)
		}
		return g.chain(ast.Id(v), st.Globals[v], true, depth)
	case 5, 6:
		u := c09Unset[g.n(0, len(c09Unset)-1, "uvar")]
		cur, ok := st.Globals[u]
		if !ok {
			cur = ref.Unset
		}
		if depth == 0 {
			depth = 1
		}
		g.labels["unset-base"] = true
		return g.chain(ast.Id(u), cur, true, depth)
	default:
		if st.Dollar == nil {
			return ast.Id("v0")
		}
		if depth == 0 {
			depth = 1
		}
		g.labels["dollar-path"] = true
		return g.chain(ast.Dollar(), *st.Dollar, true, depth)
	}
}

func (g *c09Gen) dump() *ast.Node {
	args := []*ast.Node{ast.Str(fmt.Sprintf("D%d", g.step))}
	for _, v := range c09Vars {
		args = append(args, ast.Id(v))
	}
	for _, u := range c09Unset {
		if g.uset[u] {
			args = append(args, ast.Id(u))
		}
	}
	args = append(args, ast.Dollar())
	return ast.Print(args...)
}

// iterDump iterates v3 and $ (when they are objects or arrays): a second
// observation device next to print. It must show exactly the members that
// exist now, whatever reference they were added through.
func (g *c09Gen) iterDump() []*ast.Node {
	var out []*ast.Node
	for i, it := range []*ast.Node{ast.Id("v3"), ast.Dollar()} {
		marker := fmt.Sprintf("K%d.%d", g.step, i)
		out = append(out, ast.If(ast.Bin("||", ast.Is(it, "object"), ast.Is(it.Clone(), "array")),
			ast.Block(ast.ForIn("dk", "dv", it.Clone(), ast.Block(ast.Print(ast.Str(marker), ast.Id("dk")), ast.Print(ast.Str("="), ast.Id("dv")))))))
	}
	return out
}

func (g *c09Gen) reader(st ref.Result) *ast.Node {
	// read-only expressions, including reads of missing indices and members
	base := rapid.SampledFrom([]*ast.Node{ast.Id("v2"), ast.Id("v3"), ast.Dollar(), ast.Id("v0")}).Draw(g.t, "rbase").Clone()
	var cur ref.V
	switch base.K {
	case "dollar":
		if st.Dollar != nil {
			cur = *st.Dollar
		}
	default:
		cur = st.Globals[string(base.S)]
	}
	p := g.chain(base, cur, true, g.n(1, 3, "rdepth"))
	switch g.n(0, 7, "rform") {
	case 0, 1, 2:
		return p
	case 3:
		return ast.Bin("==", p, ast.Null())
	case 4:
		return ast.Method(p, "length")
	case 5:
		return ast.Is(p, rapid.SampledFrom([]string{"null", "array", "object", "number"}).Draw(g.t, "rty"))
	case 6:
		return ast.Bin("+", p, ast.Str("!"))
	default:
		return ast.Un("!", p)
	}
}

// action appends one action (and its dump) to the program; returns false when
// the history should stop.
func (g *c09Gen) action() bool {
	st := g.state()
	if st.Class != "ok" {
		return false
	}
	for _, u := range c09Unset {
		if v, ok := st.Globals[u]; ok && v.K != ref.KUnset {
			g.uset[u] = true
		}
	}
	var stmts []*ast.Node
	label := ""
	g.cur = &st
	switch k := g.n(0, 26, "action"); {
	case k == 26:
		// a match case binds the name of a variable for the time of its body (an expression or
		// a block); afterwards an assignment to that name addresses the variable again
		if g.b("bindcontainer") {
			// a pattern name bound to a container (a variable's, an element's, a member of the
			// document): an assignment to the name changes the name, not the matched place
			subj := rapid.SampledFrom([]*ast.Node{ast.Id("v2"), ast.Id("v3"), ast.Dollar(), ast.Arr(ast.Id("v2"), ast.Id("v3")), ast.Mem(ast.Id("v3"), "b"), ast.Idx(ast.Id("v2"), ast.Num("0"))}).Draw(g.t, "bindsubj").Clone()
			pat := ast.Id("mb")
			asg := []*ast.Node{ast.ExprS(ast.Set(ast.Id("mb"), ast.Str("rebound")))}
			if subj.K == "arr" {
				pat = ast.Arr(ast.Id("ma"), ast.Id("mb"))
				asg = append(asg, ast.ExprS(ast.Asg("+=", ast.Id("ma"), ast.Num("1"))))
			}
			if g.b("bindexprbody") {
				stmts = append(stmts, ast.ExprS(ast.Set(ast.Id("tmp"), ast.Match(subj, ast.Case(ast.Set(ast.Id("mb"), ast.Num("7")), pat)))))
			} else {
				stmts = append(stmts, ast.ExprS(ast.Set(ast.Id("tmp"), ast.Match(subj, ast.Case(ast.Block(asg...), pat)))))
			}
			label = "assign-to-a-pattern-name-bound-to-a-container"
			break
		}
		v := c09Vars[g.n(0, 1, "mv")]
		body := ast.Bin("+", ast.Id(v), ast.Id("mw"))
		if g.b("mblock") {
			body = ast.Block(ast.ExprS(ast.Set(ast.Id(v), ast.Num("50"))))
		}
		stmts = append(stmts, ast.ExprS(ast.Set(ast.Id("tmp"), ast.Match(ast.Arr(ast.Num("10"), ast.Num("20")), ast.Case(body, ast.Arr(ast.Id(v), ast.Id("mw")))))),
			ast.ExprS(ast.Set(ast.Id(v), ast.Arr(ast.Id(v), ast.Num("1")))), ast.ExprS(ast.Set(ast.Idx(ast.Id(v), ast.Num("1")), ast.Id("tmp"))))
		label = "assign-after-match-bound-the-name"
	case k <= 1:
		v := c09Vars[g.n(0, len(c09Vars)-1, "v")]
		stmts = append(stmts, ast.ExprS(ast.Set(ast.Id(v), g.value(st.Globals))))
		label = "assign-variable"
	case k <= 7:
		tgt := g.target(st, 1)
		stmts = append(stmts, ast.ExprS(ast.Set(tgt, g.value(st.Globals))))
		label = "assign-path"
	case k <= 9:
		tgt := g.target(st, 0)
		op := rapid.SampledFrom([]string{"+=", "-=", "*=", "/="}).Draw(g.t, "cop")
		stmts = append(stmts, ast.ExprS(ast.Asg(op, tgt, rapid.SampledFrom([]*ast.Node{ast.Num("2"), ast.Num("0.5"), ast.Str("x")}).Draw(g.t, "crhs").Clone())))
		label = "compound-assign"
	case k <= 11:
		tgt := g.target(st, 0)
		op := rapid.SampledFrom([]string{"++", "--"}).Draw(g.t, "incdec")
		var e *ast.Node
		if g.b("prefix") {
			e = ast.Pre(op, tgt)
		} else {
			e = ast.Post(op, tgt)
		}
		stmts = append(stmts, ast.Print(ast.Str("I"), e))
		label = "incdec"
	case k <= 14:
		stmts = append(stmts, ast.Print(ast.Str("R"), g.reader(st)))
		label = "read-only"
	case k == 15:
		// store through a function parameter (containers are shared)
		v := rapid.SampledFrom([]string{"v2", "v3"}).Draw(g.t, "fv")
		var key *ast.Node
		if st.Globals[v].K == ref.KArr {
			key = ast.Num(fmt.Sprint(g.n(0, 1, "fk")))
		} else {
			key = ast.Str(c09Keys[g.n(0, 2, "fks")])
		}
		stmts = append(stmts, ast.ExprS(ast.Call(ast.Id("setm"), ast.Id(v), key, g.scalar())))
		label = "store-through-parameter"
	case k == 16:
		// scalars are passed by value
		v := c09Vars[g.n(0, len(c09Vars)-1, "bv")]
		var arg *ast.Node = ast.Id(v)
		if g.b("bumppath") {
			// ... also when the argument is read from a (possibly missing) path
			arg = g.reader(st)
			if arg.K != "mem" && arg.K != "idx" {
				arg = ast.Id(v)
			}
		}
		stmts = append(stmts, ast.Print(ast.Str("B"), ast.Call(ast.Id("bump"), arg)))
		label = "scalar-by-value"
	case k == 17:
		// for-in binding: element containers are shared, the loop variable itself is a copy
		v := rapid.SampledFrom([]string{"v2", "v3"}).Draw(g.t, "lv")
		body := ast.Block(ast.Print(ast.Str(fmt.Sprintf("K%d", g.step)), ast.Id("e")))
		switch g.n(0, 3, "loopmut") {
		case 0:
			body.C = append(body.C, ast.If(ast.Is(ast.Id("w"), "object"), ast.Block(ast.ExprS(ast.Set(ast.Mem(ast.Id("w"), "seen"), ast.Num("1"))))))
		case 1:
			body.C = append(body.C, ast.ExprS(ast.Set(ast.Id("w"), ast.Num("9"))))
		case 2:
			// ++ / -- on the loop variables: they hold copies of scalars
			body.C = append(body.C, ast.ExprS(ast.Post("++", ast.Id("w"))), ast.Print(ast.Str("dec"), ast.Pre("--", ast.Id("e"))))
		default:
			body.C = append(body.C, ast.ExprS(ast.Asg("+=", ast.Id("w"), ast.Num("1"))))
		}
		stmts = append(stmts, ast.ForIn("e", "w", ast.Id(v), body))
		label = "forin-binding"
	case k == 19 && g.b("iterate"):
		// iterate a container (keys / indices and values) as a second observation
		// device next to print: it must show exactly the members that exist now
		v := rapid.SampledFrom([]string{"v2", "v3", "$"}).Draw(g.t, "itv")
		it := ast.Id(v)
		if v == "$" {
			it = ast.Dollar()
		}
		stmts = append(stmts, ast.If(ast.Bin("||", ast.Is(it, "object"), ast.Is(it.Clone(), "array")),
			ast.Block(ast.ForIn("ik", "iv", it.Clone(), ast.Block(ast.Print(ast.Str(fmt.Sprintf("K%d", g.step)), ast.Id("ik")), ast.Print(ast.Str("V"), ast.Id("iv")))))))
		label = "iterate"
	case k == 20:
		// pluck returns a new object whose scalar members are copies
		if st.Globals["v3"].K == ref.KObj && len(st.Globals["v3"].O.Keys) > 0 {
			key := st.Globals["v3"].O.Keys[g.n(0, len(st.Globals["v3"].O.Keys)-1, "pk")]
			stmts = append(stmts, ast.ExprS(ast.Set(ast.Id("pl"), ast.Method(ast.Id("v3"), "pluck", ast.Str(key)))),
				ast.ExprS(ast.Post("++", ast.Idx(ast.Id("pl"), ast.Str(key)))), ast.Print(ast.Str("PL"), ast.Id("pl")))
			label = "pluck-then-increment"
		} else {
			stmts = append(stmts, ast.Print(ast.Str("R"), g.reader(st)))
			label = "read-only"
		}
	case k == 22:
		// containers derived from another one are independent of it: the sorted copy, a
		// literal built from variables, the pieces of a split
		switch g.n(0, 2, "derived") {
		case 0:
			if st.Globals["v2"].K == ref.KArr && len(st.Globals["v2"].A.E) > 0 {
				stmts = append(stmts, ast.ExprS(ast.Set(ast.Id("sv"), ast.Method(ast.Id("v2"), "sort"))),
					ast.ExprS(ast.Set(ast.Idx(ast.Id("sv"), ast.Num("0")), ast.Str("changed-in-sorted-copy"))),
					ast.ExprS(ast.Post("++", ast.Idx(ast.Id("sv"), ast.Un("-", ast.Num("1"))))), ast.Print(ast.Str("SV"), ast.Id("sv")))
				label = "sort-then-store"
			}
		case 1:
			if g.b("assignelems") {
				// elements that are assignment expressions (or a match yielding a variable): the
				// element is a copy of the value, not the variable that was assigned
				stmts = append(stmts, ast.ExprS(ast.Set(ast.Id("lit2"), ast.Arr(ast.Set(ast.Id("v0"), ast.Num("5")), ast.Asg("+=", ast.Id("v0"), ast.Num("1")),
					ast.Match(ast.Num("1"), ast.Case(ast.Id("v0"), ast.Id("mk"))), ast.Obj(ast.KV("k", ast.Set(ast.Id("v1"), ast.Str("t"))))))),
					ast.ExprS(ast.Set(ast.Idx(ast.Id("lit2"), ast.Num("0")), ast.Str("changed-in-literal"))),
					ast.ExprS(ast.Post("++", ast.Idx(ast.Id("lit2"), ast.Num("1")))),
					ast.ExprS(ast.Set(ast.Idx(ast.Id("lit2"), ast.Num("2")), ast.Str("changed-too"))),
					ast.ExprS(ast.Set(ast.Mem(ast.Idx(ast.Id("lit2"), ast.Num("3")), "k"), ast.Str("changed-three"))),
					ast.Print(ast.Str("LIT2"), ast.Id("lit2")), ast.ExprS(ast.Set(ast.Id("v0"), ast.Num("77"))), ast.Print(ast.Str("LIT2b"), ast.Id("lit2")))
				label = "literal-of-assignments-then-store"
				break
			}
			if g.b("laterassigns") {
				// an earlier element (argument) names a place that a later element assigns to:
				// the earlier one holds the value the place had when it was evaluated
				stmts = append(stmts, ast.ExprS(ast.Set(ast.Id("ev"), ast.Num("1"))), ast.ExprS(ast.Set(ast.Mem(ast.Id("eo"), "c"), ast.Str("s"))),
					// (parameters that get no argument are variables of their own, null at first)
					ast.Print(ast.Str("LOC"), ast.Call(ast.Id("locals"), ast.Id("ev")), ast.Call(ast.Id("locals"))),
					ast.Print(ast.Str("LIT3"), ast.Arr(ast.Id("ev"), ast.Post("++", ast.Id("ev")), ast.Id("ev"), ast.Asg("+=", ast.Id("ev"), ast.Num("5")), ast.Id("ev"))),
					ast.Print(ast.Str("LIT4"), ast.Arr(ast.Mem(ast.Id("eo"), "c"), ast.Set(ast.Mem(ast.Id("eo"), "c"), ast.Num("9")), ast.Mem(ast.Id("eo"), "c")),
						ast.Call(ast.Id("getm"), ast.Arr(ast.Id("ev"), ast.Set(ast.Id("ev"), ast.Str("t"))), ast.Num("0")), ast.Call(ast.Id("three"), ast.Id("ev"), ast.Pre("--", ast.Id("ev")), ast.Id("ev"))))
				label = "earlier-element-names-a-place-a-later-one-assigns"
				break
			}
			stmts = append(stmts, ast.ExprS(ast.Set(ast.Id("lit"), ast.Arr(ast.Id("v0"), ast.Id("v1"), ast.Obj(ast.KV("k", ast.Id("v0")))))),
				ast.ExprS(ast.Set(ast.Idx(ast.Id("lit"), ast.Num("0")), ast.Str("changed-in-literal"))),
				ast.ExprS(ast.Post("++", ast.Mem(ast.Idx(ast.Id("lit"), ast.Num("2")), "k"))), ast.Print(ast.Str("LIT"), ast.Id("lit")))
			label = "literal-then-store"
		default:
			stmts = append(stmts, ast.ExprS(ast.Set(ast.Id("parts"), ast.Method(ast.Str("a,b,c"), "split", ast.Str(",")))),
				ast.ExprS(ast.Set(ast.Idx(ast.Id("parts"), ast.Num("1")), ast.Id("v0"))), ast.Print(ast.Str("PARTS"), ast.Id("parts"), ast.Method(ast.Str("a,b,c"), "split", ast.Str(","))))
			label = "split-then-store"
		}
		if label == "" {
			stmts = append(stmts, ast.Print(ast.Str("R"), g.reader(st)))
			label = "read-only"
		}
	case k == 25:
		// two stores below one missing intermediate in a single statement: the inner
		// assignment creates the intermediate, the outer one adds to it
		u := c09Unset[g.n(0, len(c09Unset)-1, "chainvar")]
		base := rapid.SampledFrom([]*ast.Node{ast.Mem(ast.Id(u), "ch"), ast.Mem(ast.Id("v3"), "newch"), ast.Idx(ast.Id("v2"), ast.Num("5")), ast.Mem(ast.Dollar(), "newch")}).Draw(g.t, "chainbase").Clone()
		g.uset[u] = true
		outer := ast.Mem(base.Clone(), "first")
		inner := ast.Mem(base.Clone(), "second")
		if g.b("chainidx") {
			outer, inner = ast.Idx(ast.Mem(base.Clone(), "list"), ast.Num("0")), ast.Idx(ast.Mem(base.Clone(), "list"), ast.Num("2"))
		}
		if g.n(0, 4, "chainsame") == 0 {
			// both assignments address the same missing place: it holds the value afterwards
			inner = outer.Clone()
			label = "two-stores-to-one-missing-place"
		} else if g.n(0, 3, "chainself") == 0 {
			// the inner assignment puts a scalar where the outer target needs a container:
			// the outer store is then a store of a member on a scalar
			inner = base.Clone()
			label = "store-below-a-scalar-made-by-the-right-hand-side"
		}
		stmts = append(stmts, ast.ExprS(ast.Set(ast.Id("tmp"), ast.Num("0"))), ast.ExprS(ast.Set(outer, ast.Set(inner, g.scalar()))))
		if label == "" {
			label = "two-stores-below-one-missing-intermediate"
		}
	case k == 24:
		// a store below the value returned by a function: the result of a call is a
		// value, not a place in the container the function read it from
		base := rapid.SampledFrom([]*ast.Node{ast.Id("v3"), ast.Id("v2"), ast.Dollar()}).Draw(g.t, "retbase").Clone()
		key := rapid.SampledFrom([]*ast.Node{ast.Str("nokey"), ast.Str("a"), ast.Num("9"), ast.Num("0"), ast.Str("b")}).Draw(g.t, "retkey").Clone()
		call := ast.Call(ast.Id("getm"), base, key)
		var tgt *ast.Node
		if g.b("retidx") {
			tgt = ast.Idx(call, ast.Num("0"))
		} else {
			tgt = ast.Mem(call, "x")
		}
		stmts = append(stmts, ast.ExprS(ast.Set(ast.Id("tmp"), ast.Num("0"))), ast.ExprS(ast.Set(tgt, g.scalar())))
		label = "store-below-call-result"
	case k == 23:
		// chained (right-associative) assignments, plain and compound
		a1 := c09Vars[g.n(0, 1, "ch1")]
		op1 := rapid.SampledFrom([]string{"=", "+=", "-=", "*="}).Draw(g.t, "chop1")
		op2 := rapid.SampledFrom([]string{"=", "+=", "-=", "*="}).Draw(g.t, "chop2")
		tgt2 := g.target(st, 0)
		// (the inner target may be the outer one: `x += x = 1` reads x first, then assigns: DESIGN.md 3)
		stmts = append(stmts, ast.ExprS(ast.Asg(op1, ast.Id(a1), ast.Asg(op2, tgt2, ast.Num(fmt.Sprint(g.n(1, 4, "chv")))))))
		label = "chained-assignment"
	case k == 21:
		// a copy of a scalar read from a container, then changed
		stmts = append(stmts, ast.ExprS(ast.Set(ast.Id("cp"), g.chain(ast.Id("v2"), st.Globals["v2"], true, 1))), ast.ExprS(ast.Post("++", ast.Id("cp"))), ast.Print(ast.Str("CP"), ast.Id("cp")))
		label = "copy-then-increment"
	case k == 18:
		// length-changing methods through a variable or through a parameter
		v := rapid.SampledFrom([]string{"v2", "v3", "v0"}).Draw(g.t, "pv")
		if st.Globals[v].K == ref.KArr {
			switch g.n(0, 3, "pm") {
			case 0:
				stmts = append(stmts, ast.ExprS(ast.Method(ast.Id(v), "push", g.scalar())))
			case 1:
				stmts = append(stmts, ast.Print(ast.Str("P"), ast.Method(ast.Id(v), "pop")))
			case 2:
				stmts = append(stmts, ast.Print(ast.Str("P"), ast.Method(ast.Id(v), "popfirst")))
			default:
				stmts = append(stmts, ast.ExprS(ast.Call(ast.Id("pushv"), ast.Id(v), g.scalar())))
			}
			label = "length-change"
		} else {
			stmts = append(stmts, ast.ExprS(ast.Set(ast.Id(v), ast.Arr(g.scalar()))))
			label = "assign-variable"
		}
	default:
		// alias a container under a second name
		v := c09Vars[g.n(0, len(c09Vars)-1, "av")]
		stmts = append(stmts, ast.ExprS(ast.Set(ast.Id(v), g.value(st.Globals))))
		label = "assign-variable"
	}
	// would this action be specified? if not, drop it and go on
	probe := g.state(stmts...)
	switch probe.Class {
	case "unspecified":
		g.labels["dropped-unspecified"] = true
		return true
	case "known":
		g.labels["dropped-known:"+probe.Reason] = true
		return true
	}
	g.step++
	g.labels["action:"+label] = true
	g.stmts = append(g.stmts, stmts...)
	if probe.Class == "runtime" {
		g.labels["ends-in-runtime-error"] = true
		return false
	}
	for _, u := range c09Unset {
		if v, ok := probe.Globals[u]; ok && v.K != ref.KUnset {
			g.uset[u] = true
		}
	}
	g.stmts = append(g.stmts, g.dump())
	g.stmts = append(g.stmts, g.iterDump()...)
	return true
}

func c09Doc(t *rapid.T) (*jsonx.Val, bool) {
	o := gen.DocOpts{Depth: 2, MaxItems: 3, SafeStr: true, SmallNums: true, Keys: c09Keys, ForceEmpty: true}
	mk := func() *jsonx.Val {
		v := jsonx.VObj()
		for _, k := range []string{"a", "b", "n"} {
			if rapid.IntRange(0, 3).Draw(t, "haskey") > 0 {
				v.Members = append(v.Members, jsonx.Member{Key: k, Val: gen.JSONDoc(o).Draw(t, "member")})
			}
		}
		return v
	}
	if rapid.IntRange(0, 2).Draw(t, "arrayroot") == 0 {
		return jsonx.VArr(mk(), mk(), gen.JSONDoc(o).Draw(t, "third")), true
	}
	return mk(), false
}

func genC09(t *rapid.T, maxActions int) (*DCase, map[string]bool) {
	g := &c09Gen{t: t, labels: map[string]bool{}, uset: map[string]bool{}}
	doc, isArr := c09Doc(t)
	g.files = []DFile{{Name: "in", Docs: []string{gen.Compact(doc)}}}
	if isArr {
		g.labels["array-root"] = true
		if rapid.IntRange(0, 2).Draw(t, "everyelement") == 0 {
			// no guard: the whole action list runs once per element, so every site is
			// evaluated several times, on different elements and on variables that carry
			// over from the previous round
			g.labels["actions-repeated-per-element"] = true
		} else {
			g.guard = ast.Bin("==", ast.Id("$index"), ast.Num("0"))
		}
	}
	set := func(n string, v *ast.Node) *ast.Node { return ast.ExprS(ast.Set(ast.Id(n), v)) }
	g.stmts = []*ast.Node{
		set("v0", ast.Num("1")), set("v1", ast.Str("s")),
		set("v2", ast.Arr(ast.Num("1"), ast.Num("2"), ast.Num("3"))),
		set("v3", ast.Obj(ast.KV("a", ast.Num("1")), ast.KV("b", ast.Obj(ast.KV("c", ast.Num("2")))))),
	}
	g.stmts = append(g.stmts, g.dump())
	n := rapid.IntRange(1, maxActions).Draw(t, "nactions")
	for k := 0; k < n; k++ {
		if !g.action() {
			break
		}
	}
	return g.program(), g.labels
}

func c09Nontrivial(labels map[string]bool, c *DCase) bool {
	return labels["deep-autocreate"] || labels["alias-store"] || labels["index-past-end"] || labels["missing-member"] ||
		labels["action:store-through-parameter"] || labels["action:forin-binding"]
}

// ---- model-free: pure expressions never change the input document -------------------------

type C09Pure struct {
	Prog *ast.Node `json:"prog"`
	Doc  string    `json:"doc"`
}

func c09PureCheck(c *C09Pure) (string, bool) {
	src := ast.Source(c.Prog)
	o := run.InProc(src, []run.InFile{{Name: "in", Data: []byte(c.Doc)}}, nil, run.Opts{Budget: implBudget, WantRoot: true})
	if o.Class == "panic" {
		return "panic: " + o.Panic, true
	}
	if o.Class == "runtime" && len(c.Prog.C) == 1 && c.Prog.C[0].K == "rule" && c.Prog.C[0].C[1] != nil && len(c.Prog.C[0].C[1].C) > 1 {
		// one of the reads fails (comparing containers, calling null, ...): keep the reads that
		// succeed on their own and look at the document after those
		var keep []*ast.Node
		for _, st := range c.Prog.C[0].C[1].C {
			one := ast.Prog(ast.Rule("pattern", nil, ast.Block(st.Clone())))
			if r := run.InProc(ast.Source(one), []run.InFile{{Name: "in", Data: []byte(c.Doc)}}, nil, run.Opts{Budget: implBudget}); r.Class == "ok" {
				keep = append(keep, st.Clone())
			} else if r.Class == "panic" {
				return "panic: " + r.Panic, true
			}
		}
		if len(keep) == 0 {
			return "", false
		}
		src = ast.Source(ast.Prog(ast.Rule("pattern", nil, ast.Block(keep...))))
		o = run.InProc(src, []run.InFile{{Name: "in", Data: []byte(c.Doc)}}, nil, run.Opts{Budget: implBudget, WantRoot: true})
		if o.Class == "panic" {
			return "panic: " + o.Panic, true
		}
	}
	if o.Class != "ok" {
		return "", false // the expression failed: nothing to compare
	}
	want, err := jsonx.Parse(c.Doc)
	if err != nil {
		return "harness: bad document: " + err.Error(), true
	}
	if o.RootErr != "" || o.RootPanic != "" {
		return "GetRootJson failed after a read-only program: " + o.RootErr + o.RootPanic, true
	}
	got, err := jsonx.Parse(o.RootJSON)
	if err != nil {
		return "GetRootJson is not JSON: " + err.Error(), true
	}
	if !jsonx.Equal(got, want) {
		return fmt.Sprintf("a program without assignments changed the document\n input:  %s\n output: %s\nprogram:\n%s", jsonx.Compact(want), jsonx.Compact(got), src), true
	}
	return "", true
}

func genC09Pure(t *rapid.T) *C09Pure {
	o := gen.DocOpts{Depth: 3, MaxItems: 3, SafeStr: true, SmallNums: true, Keys: []string{"a", "b", "items", "n", "k"}, ForceEmpty: true}
	doc := gen.JSONDoc(o).Draw(t, "doc")
	env := &gen.Env{Dollar: "obj", DollarKeys: []string{"a", "b", "n", "k", "missing"}, Arrs: nil, NoUnset: true}
	var stmts []*ast.Node
	n := rapid.IntRange(1, 4).Draw(t, "nreads")
	for k := 0; k < n; k++ {
		var e *ast.Node
		if rapid.Bool().Draw(t, "path") {
			e = gen.ReadPath(doc).Draw(t, "readpath")
		} else {
			e = gen.Expr(env, 3, "any").Draw(t, "expr")
		}
		stmts = append(stmts, ast.Print(e))
	}
	kind := "pattern"
	return &C09Pure{Prog: ast.Prog(ast.Rule(kind, nil, ast.Block(stmts...))), Doc: gen.Compact(doc)}
}

func TestC09(t *testing.T) {
	rec := start(t, "C09", "exploration",
		"state machine: a straight-line program over 4 variables, 2 unset names and a generated document ($), one action per step: assign scalar / fresh container / alias to a variable; assign through member/index chains of depth 1-4 over existing, missing and unset bases (index classes: in range, = len, past the end, negative in range, before the start, fractional); op=; ++/-- prefix and postfix; read-only expressions incl. reads of missing indices/members; store through a function parameter; scalar by value; for-in binding; push/pop/popfirst. After every action every variable and $ are printed, and at the end GetRootJson is compared with the reference root path by path (order-free). Second, model-free: programs made only of pure expressions leave GetRootJson equal to the input. Non-trivial: a store that auto-creates below depth 1, an alias store, an index past the end, a missing member, a store through a parameter or for-in variable. distinct = distinct program+document.")
	defer rec.Finish()
	rec.Assume("refjq's location model (DESIGN.md 4.3); stores through an existing null, member reads of unset variables and stores to method names are unspecified (dropped at generation time, counted as labels)")
	rec.Replayer("locality", replayDiff(true))
	rec.Replayer("pure-read", func(raw json.RawMessage) error {
		var c C09Pure
		if err := json.Unmarshal(raw, &c); err != nil {
			return err
		}
		if msg, _ := c09PureCheck(&c); msg != "" {
			return fmt.Errorf("%s", msg)
		}
		return nil
	})
	if rec.ReplayOnly() {
		return
	}
	excl.ArrayAlias = rec.KnownActive("KF-array-alias", true)
	rec.ReplayTier()

	maxActions := 15
	if evThorough() {
		maxActions = 40
	}
	check(rec, "locality-random", scale(6000, 2500000), func(rt *rapid.T) {
		c, labels := genC09(rt, maxActions)
		var ls []string
		for l := range labels {
			ls = append(ls, l)
		}
		runDiff(rec, rt, "locality", c, true, func(*diffResult) bool { return c09Nontrivial(labels, c) }, ls...)
	})
	// sharing at every size: a long array held by two variables, an object member and the
	// document, changed in long runs of pushes / pops through alternating references
	check(rec, "long-shared", scale(600, 200000), func(rt *rapid.T) {
		c := genC15Long(rt)
		runDiff(rec, rt, "locality", c, false, func(*diffResult) bool { return true }, "long-shared-array")
	})
	check(rec, "pure-read-random", scale(6000, 3000000), func(rt *rapid.T) {
		c := genC09Pure(rt)
		msg, compared := c09PureCheck(c)
		if !compared {
			rec.Discard("read-only program ended in a runtime error")
			return
		}
		src := ast.Source(c.Prog)
		rec.Case(src+"\x00"+c.Doc, true, "pure-read")
		rec.Sample(func() interface{} { return map[string]interface{}{"program": src, "document": c.Doc} })
		if msg != "" {
			rec.Pending("pure-read", c, src, msg)
			rt.Fatalf("%s\n%s\n%s", msg, src, c.Doc)
		}
	})
}
