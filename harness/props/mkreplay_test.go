package props

import (
	"encoding/json"
	"os"
	"path/filepath"
	"testing"

	"verif/harness/ast"
	"verif/harness/ev"
)

// TestMkReplay writes the hand-made reproduction files of known findings into
// /verif/replay when VERIF_MKREPLAY=1 (a maintenance helper, not a check).
func TestMkReplay(t *testing.T) {
	if os.Getenv("VERIF_MKREPLAY") != "1" {
		t.Skip("maintenance helper")
	}
	write := func(name, prop, check, explain string, c interface{}, program string) {
		raw, _ := json.Marshal(c)
		rp := ev.Replay{Property: prop, Check: check, Explain: explain, Program: program, Case: raw}
		data, _ := json.MarshalIndent(rp, "", " ")
		if err := os.WriteFile(filepath.Join(ev.Root(), "replay", name), append(data, '\n'), 0o644); err != nil {
			t.Fatal(err)
		}
	}
	set := func(n string, v *ast.Node) *ast.Node { return ast.ExprS(ast.Set(ast.Id(n), v)) }
	{
		c := &DCase{Prog: ast.Prog(ast.Rule("BEGIN", nil, ast.Block(
			set("a", ast.Arr(ast.Num("1"), ast.Num("2"))),
			set("b", ast.Id("a")),
			ast.ExprS(ast.Method(ast.Id("b"), "push", ast.Num("3"))),
			ast.Print(ast.Id("a"), ast.Id("b")),
		)))}
		write("FX-C09-array-alias.json", "C09", "locality",
			"b = a; b.push(3): the push is invisible through a (an array's length lives in each copy of the array value)", c, c.Source())
	}
	write("FX-C03-stray-bracket.json", "C03", "stream", "[1] ] [2]: a stray ']' between values ended the run silently with success",
		&C03Case{Data: "[1] ] [2]", FailAt: -1, Prog: 1, What: "stray ']' between values"}, "{ print }")
}
