package props

import (
	"encoding/binary"
	"fmt"
	"os"
	"sort"
	"strings"
	"testing"
)

// TestMergeHashes is a helper for the driver: it counts the distinct 64-bit
// hashes in the shard hash files named by VERIF_MERGE_FILES (':'-separated).
func TestMergeHashes(t *testing.T) {
	list := os.Getenv("VERIF_MERGE_FILES")
	if list == "" {
		t.Skip("driver helper")
	}
	var all []uint64
	for _, f := range strings.Split(list, ":") {
		data, err := os.ReadFile(f)
		if err != nil {
			continue
		}
		for k := 0; k+8 <= len(data); k += 8 {
			all = append(all, binary.LittleEndian.Uint64(data[k:]))
		}
	}
	sort.Slice(all, func(a, b int) bool { return all[a] < all[b] })
	n := 0
	for k := range all {
		if k == 0 || all[k] != all[k-1] {
			n++
		}
	}
	fmt.Printf("DISTINCT %d\n", n)
}
