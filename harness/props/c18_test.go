package props

import (
	"fmt"
	"strings"
	"testing"

	"verif/harness/ast"

	"pgregory.net/rapid"
)

// C18 — printf emits exactly the format, each directive replaced and padded to
// its width (DESIGN.md 4.7; refjq's formatter is the reference).

type c18Arg struct {
	node   *ast.Node
	kind   string
	render string
}

func c18Args() []c18Arg {
	neg := func(s string) *ast.Node { return ast.Un("-", ast.Num(s)) }
	return []c18Arg{
		{ast.Str(""), "str", ""}, {ast.Str("a"), "str", "a"}, {ast.Str("héllo"), "str", "héllo"}, {ast.Str("x y"), "str", "x y"},
		{ast.Str("日本"), "str", "日本"}, {ast.Str("%s"), "str", "%s"}, {ast.Str("12"), "str", "12"},
		{ast.Num("0"), "num", "0"}, {ast.Num("5"), "num", "5"}, {neg("3"), "num", "-3"}, {ast.Num("2.5"), "num", "2.5"},
		{ast.Num("1000000000000000000000"), "num", "1000000000000000000000"}, {ast.Num("0.0000001"), "num", "0.0000001"},
		{neg("0"), "num", "-0"}, {neg("12.25"), "num", "-12.25"}, {ast.Num("123456"), "num", "123456"},
		{ast.True(), "bool", "true"}, {ast.False(), "bool", "false"}, {ast.Null(), "null", "null"},
		{ast.Arr(), "arr", "[]"}, {ast.Arr(ast.Num("1"), ast.Str("a")), "arr", `[1, "a"]`},
		{ast.Obj(), "obj", "{}"}, {ast.Obj(ast.KV("k", ast.Num("1"))), "obj", `{"k": 1}`},
		{ast.Obj(ast.KV("b", ast.Num("1")), ast.KV("a", ast.Arr(ast.Num("2")))), "obj", `{"a": [2], "b": 1}`},
		// a regex is neither a string nor a number: %s and %f refuse it
		{ast.Regex("xy"), "regex", ""}, {ast.Regex("^a|b$"), "regex", ""},
	}
}

type c18Gen struct {
	t      *rapid.T
	labels map[string]bool
	args   []c18Arg
}

func (g *c18Gen) n(lo, hi int, l string) int { return rapid.IntRange(lo, hi).Draw(g.t, l) }

func (g *c18Gen) literal() string {
	switch g.n(0, 5, "litkind") {
	case 0:
		return ""
	case 1:
		return rapid.SampledFrom([]string{"a", " ", "|", "x=", ", ", "<", "é", "日", "#", "{", "0", "-", "s", "f", "v"}).Draw(g.t, "lit")
	case 2:
		return "\\n"
	case 3:
		return "\\t"
	default:
		// arbitrary bytes except %, quotes, backslash
		n := g.n(0, 6, "rawlen")
		b := make([]byte, 0, n)
		for k := 0; k < n; k++ {
			c := byte(g.n(1, 255, "rawbyte"))
			if c == '%' || c == '"' || c == '\'' || c == '\\' {
				c = '.'
			}
			b = append(b, c)
		}
		return string(b)
	}
}

func (g *c18Gen) width(renderLen int) string {
	switch g.n(0, 21, "wcls") {
	case 20:
		// redundant leading zeros: a long width text with a small value
		g.labels["zero-pad"] = true
		g.labels["long-width-text"] = true
		return strings.Repeat("0", g.n(2, 24, "nzeros")) + fmt.Sprint(g.n(0, renderLen+4, "zw"))
	case 21:
		g.labels["long-width-text"] = true
		return rapid.SampledFrom([]string{"0000000", "00000000000000000065536", "0000000065537", "000000000000000000000000000000003", "0065536"}).Draw(g.t, "longw")
	case 0, 1, 2, 3:
		return ""
	case 4:
		return "0"
	case 5:
		return "1"
	case 6:
		g.labels["width-near-length"] = true
		if renderLen > 1 {
			return fmt.Sprint(renderLen - 1)
		}
		return "1"
	case 7:
		g.labels["width-near-length"] = true
		if renderLen > 0 {
			return fmt.Sprint(renderLen)
		}
		return "0"
	case 8:
		g.labels["width-near-length"] = true
		return fmt.Sprint(renderLen + 1)
	case 9:
		return "10"
	case 10:
		g.labels["zero-pad"] = true
		return "007"
	case 11:
		g.labels["negative-width"] = true
		return "-1"
	case 12:
		g.labels["negative-width"] = true
		g.labels["width-near-length"] = true
		return fmt.Sprint(-renderLen - 0)
	case 13:
		g.labels["negative-width"] = true
		return fmt.Sprint(-(renderLen + 3))
	case 14:
		g.labels["big-width"] = true
		return rapid.SampledFrom([]string{"4096", "65536", "-65536", "065536"}).Draw(g.t, "bigw")
	case 15:
		g.labels["width-over-limit"] = true
		return rapid.SampledFrom([]string{"65537", "-65537", "1000000", "1234567890123456789012345", "4294967297", "9223372036854775808", "18446744073709551616", "18446744073709551626", "-18446744073709551626", "18446744073709551617"}).Draw(g.t, "overw")
	case 16:
		g.labels["zero-pad"] = true
		return "0" + fmt.Sprint(renderLen+2)
	case 17:
		return "-" // '-' not followed by a digit
	case 18:
		return fmt.Sprint(g.n(2, 12, "w"))
	default:
		return fmt.Sprint(-g.n(2, 12, "nw"))
	}
}

func genC18(t *rapid.T) (*DCase, map[string]bool) {
	g := &c18Gen{t: t, labels: map[string]bool{}, args: c18Args()}
	var format strings.Builder
	var args []*ast.Node
	nseg := g.n(0, 5, "nseg")
	ndir := 0
	for s := 0; s < nseg; s++ {
		format.WriteString(g.literal())
		switch k := g.n(0, 11, "dir"); {
		case k <= 7:
			// a proper directive with a fitting argument (mostly)
			letter := rapid.SampledFrom([]string{"s", "f", "v", "v"}).Draw(t, "letter")
			var cands []c18Arg
			for _, a := range g.args {
				if letter == "v" || (letter == "s" && a.kind == "str") || (letter == "f" && a.kind == "num") {
					cands = append(cands, a)
				}
			}
			a := cands[g.n(0, len(cands)-1, "arg")]
			if g.n(0, 9, "wrongkind") == 0 {
				a = g.args[g.n(0, len(g.args)-1, "anyarg")]
				g.labels["maybe-wrong-kind"] = true
			}
			format.WriteString("%" + g.width(len(a.render)) + letter)
			if g.n(0, 11, "dropit") == 0 {
				g.labels["missing-argument"] = true
			} else {
				args = append(args, a.node.Clone())
			}
			ndir++
			g.labels["directive-%"+letter] = true
		case k == 8:
			format.WriteString("%%")
			g.labels["percent-percent"] = true
		case k == 9:
			format.WriteString("%" + g.width(1) + rapid.SampledFrom([]string{"d", "x", "q", " ", "S"}).Draw(t, "badletter"))
			g.labels["unknown-directive"] = true
		case k == 10 && s == nseg-1:
			format.WriteString("%" + rapid.SampledFrom([]string{"", "5", "-", "-3"}).Draw(t, "dangling"))
			g.labels["dangling-percent-or-width"] = true
		default:
			format.WriteString(g.literal())
		}
	}
	format.WriteString(g.literal())
	if g.n(0, 11, "percentrun") == 0 {
		// the format ends in a run of per-cent signs: pairs are per-cent signs, an odd one is left dangling
		format.WriteString(strings.Repeat("%", g.n(1, 7, "npercent")))
		g.labels["format-ends-in-a-run-of-percent-signs"] = true
	}
	if g.n(0, 5, "surplus") == 0 {
		args = append(args, ast.Num("99"))
		g.labels["surplus-argument"] = true
	}
	if ndir >= 2 {
		g.labels["multi-directive"] = true
	}
	var first *ast.Node = ast.Str(format.String())
	if g.n(0, 14, "badfirst") == 0 {
		first = rapid.SampledFrom([]*ast.Node{ast.Num("5"), ast.Null(), ast.Arr()}).Draw(t, "firstarg").Clone()
		g.labels["first-argument-not-a-string"] = true
	}
	call := ast.Call(ast.Id("printf"), append([]*ast.Node{first}, args...)...)
	if g.n(0, 19, "noargs") == 0 {
		call = ast.Call(ast.Id("printf"))
	}
	stmts := []*ast.Node{
		ast.Print(ast.Str("before")),
		ast.ExprS(ast.Set(ast.Id("r"), call)),
		ast.Print(ast.Str("|after"), ast.Id("r")),
	}
	return &DCase{Prog: ast.Prog(ast.Rule("BEGIN", nil, ast.Block(stmts...)))}, g.labels
}

// genC18Reuse: one printf site (inside a function) executed 2-3 times with independently
// generated formats and arguments.
func genC18Reuse(t *rapid.T) *DCase {
	n := rapid.IntRange(2, 3).Draw(t, "ncalls")
	pf := ast.Func("pf", []string{"pff", "pfa", "pfb", "pfc"}, ast.Block(
		ast.ExprS(ast.Set(ast.Id("pfr"), ast.Call(ast.Id("printf"), ast.Id("pff"), ast.Id("pfa"), ast.Id("pfb"), ast.Id("pfc")))),
		ast.Print(ast.Str("|after"), ast.Id("pfr"))))
	var stmts []*ast.Node
	for k := 0; k < n; k++ {
		one, _ := genC18(t)
		// the printf call of the single-call program: r = printf(...)
		var call *ast.Node
		for _, st := range one.Prog.C[0].C[1].C {
			if st.K == "expr" && st.C[0].K == "asg" && st.C[0].C[1].K == "call" {
				call = st.C[0].C[1]
			}
		}
		args := append([]*ast.Node{}, call.C[1:]...)
		for len(args) < 4 {
			args = append(args, ast.Null())
		}
		stmts = append(stmts, ast.Print(ast.Str(fmt.Sprintf("call%d", k))), ast.ExprS(ast.Call(ast.Id("pf"), args[:4]...)))
	}
	return &DCase{Prog: ast.Prog(pf, ast.Rule("BEGIN", nil, ast.Block(stmts...)))}
}

func TestC18(t *testing.T) {
	rec := start(t, "C18", "exploration",
		"one printf call per program between two print statements (and, in the sub-check printf-site-reuse, one printf site inside a function executed 2-3 times with independently generated formats and arguments): format strings assembled from literal segments (all bytes but %, the quotes and the backslash; \\n and \\t escapes), directives %[width]{s,f,v}, %%, unknown directives, a dangling % or width at the end; widths from {none, 0, 1, len-1, len, len+1, 10, 007, 0(len+2), 2-24 redundant zeros followed by a small width, long zero-prefixed texts at the limit, -1, -len, -(len+3), 4096, 65536, -65536, 65537, -65537, 10^6, a 25-digit number, a lone '-', random}; arguments of every kind (strings incl. multi-byte, numbers incl. -0 / 1e21 / 1e-7, booleans, null, arrays, objects), fitting, of the wrong kind, missing, surplus; a first argument that is not a string; no arguments. Expected stdout bytes (or RuntimeError with nothing of this printf written, earlier output kept) from refjq's formatter (DESIGN.md 4.7). Non-trivial: >= 2 directives, a width within +-1 of the rendering length, or an error case. distinct = distinct program.")
	defer rec.Finish()
	rec.Assume("refjq's formatter (DESIGN.md 4.7); a width on %% and a negative width written with a leading zero are unspecified (discarded)")
	rec.Replayer("printf", replayDiff(false))
	if rec.ReplayOnly() {
		return
	}
	rec.ReplayTier()
	check(rec, "printf-site-reuse", scale(4000, 2000000), func(rt *rapid.T) {
		c := genC18Reuse(rt)
		runDiff(rec, rt, "printf", c, false, func(d *diffResult) bool { return true }, "site-reuse")
	})
	check(rec, "printf-random", scale(25000, 25000000), func(rt *rapid.T) {
		c, labels := genC18(rt)
		var ls []string
		for l := range labels {
			ls = append(ls, l)
		}
		runDiff(rec, rt, "printf", c, false, func(d *diffResult) bool {
			return labels["multi-directive"] || labels["width-near-length"] || d.Ref.Class == "runtime"
		}, ls...)
	})
}
