package props

import (
	"time"
	"encoding/json"
	"fmt"
	"os"
	"path/filepath"
	"strings"
	"testing"

	"verif/harness/ast"
	"verif/harness/ev"
	"verif/harness/gen"
	"verif/harness/run"

	"pgregory.net/rapid"
)

// C01 — every run ends in success or one of three reported error kinds, never
// a crash, and no internal control-flow signal surfaces to the caller.

type C01Case struct {
	Prog  ast.BS   `json:"prog"`
	Sels  []ast.BS `json:"sels,omitempty"`
	Input []ast.BS `json:"input"` // one byte stream per input file
	CLI   bool     `json:"cli,omitempty"`
	Gen   string   `json:"gen,omitempty"`
}

const c01Budget = 200_000

// inflight: a Go fatal error (stack exhaustion, out of memory) cannot be
// recovered; the case being run is kept on disk so that the driver can re-run
// exactly that case in a fresh process.
func c01Inflight(c *C01Case) func() {
	dir := os.Getenv("VERIF_WORK")
	if dir == "" {
		return func() {}
	}
	path := filepath.Join(dir, fmt.Sprintf("inflight-%d.json", os.Getpid()))
	raw, _ := json.Marshal(c)
	rp := ev.Replay{Property: "C01", Check: "outcome", Explain: "the test process died while running this case", Program: string(c.Prog), Case: raw}
	data, _ := json.Marshal(rp)
	os.WriteFile(path, data, 0o644)
	return func() { os.Remove(path) }
}

func c01Check(c *C01Case) (msg string, class string) {
	done := c01Inflight(c)
	defer done()
	var files []run.InFile
	for i, in := range c.Input {
		files = append(files, run.InFile{Name: fmt.Sprintf("in%d", i), Data: []byte(in)})
	}
	var sels []string
	for _, s := range c.Sels {
		sels = append(sels, string(s))
	}
	o := run.InProc(string(c.Prog), files, sels, run.Opts{Budget: c01Budget})
	class = o.Class
	switch o.Class {
	case "ok", "syntax", "runtime", "json", "budget":
		// a control-flow signal dressed up as one of the reported kinds is still the signal
		switch strings.TrimSpace(o.Msg) {
		case "next", "exit", "break", "continue", "return":
			return fmt.Sprintf("the internal control-flow signal %q surfaces as a %s error", o.Msg, o.Class), class
		}
	case "panic":
		return "internal panic: " + o.Panic + "\n" + firstN(o.Stack, 1200), class
	default:
		return "the run ended with an error that is none of the three reported kinds: " + o.Msg, class
	}
	if len(sels) == 0 {
		// (an error raised inside a selector quotes the selector's text, not the program's)
		if msg := c12Universal(string(c.Prog), o); msg != "" {
			return msg, class
		}
	}
	if c.CLI && o.Class != "budget" && run.CLIBinary() != "" && !strings.ContainsRune(string(c.Prog), 0) {
		args := []string{}
		ok := true
		for _, s := range sels {
			if strings.ContainsRune(s, 0) {
				ok = false
			}
			args = append(args, "-r", s)
		}
		args = append(args, "-f", "p.jqawk", "--")
		fm := map[string][]byte{"p.jqawk": []byte(c.Prog)}
		for i, in := range c.Input {
			name := fmt.Sprintf("in%d", i)
			fm[name] = []byte(in)
			args = append(args, name)
		}
		// (the -dbg-ast / -dbg-lex developer flags are outside C01's claim and are not run)
		for _, mode := range []string{"", "-o"} {
			if !ok {
				break
			}
			withO := mode == "-o"
			a := args
			if withO {
				if len(c.Input) > 1 {
					continue
				}
				a = append([]string{"-o", "-"}, args...)
			} else if mode != "" {
				a = append([]string{mode}, args...)
			}
			res, err := run.CLI(run.CLIOpts{Args: a, Files: fm})
			if err != nil || res.TimedOut {
				continue
			}
			if res.Signal != "" {
				return "the binary was killed by " + res.Signal, class
			}
			if m := run.LooksLikeCrash(res.Stderr); m != "" {
				return fmt.Sprintf("the binary crashed (%s): %s", m, clip(string(res.Stderr))), class
			}
			if res.Exit != 0 && res.Exit != 1 {
				return fmt.Sprintf("the binary exits with status %d: %s", res.Exit, clip(string(res.Stderr))), class
			}
			if res.Exit == 1 && len(strings.TrimSpace(string(res.Stderr))) == 0 {
				return "the binary exits with status 1 without a diagnostic", class
			}
			if mode != "" && !withO {
				continue
			}
			if res.Exit == 0 && !withO && len(res.Stderr) != 0 {
				return fmt.Sprintf("the binary exits with status 0 but wrote to stderr: %s", clip(string(res.Stderr))), class
			}
			wantExit := 0
			if o.Class != "ok" {
				wantExit = 1
			}
			if !withO && res.Exit != wantExit {
				return fmt.Sprintf("the library outcome is %s but the binary exits with %d (%s)", o.Class, res.Exit, clip(string(res.Stderr))), class
			}
		}
	}
	return "", class
}

// ---- G5: every statement kind evaluated at, just below and just above the nesting limit -------------

type C01Limit struct {
	Stmt   string `json:"stmt"`
	Depth  int    `json:"depth"`
	Blocks int    `json:"blocks"`
	Extra  int    `json:"extra,omitempty"` // further expression levels around the call of g()
}

var c01LimitStmts = []string{"return", "return 1", "print 1", "exit", "next", "x = 1", "x++", "if (1) { }", "if (0) { } else { }", "while (0) { }", "while (1) { break }",
	"for (i = 0; i < 0; i++) { }", "for (v in []) { }", "for (v in [1]) { continue }", "match (1) { 1 => { } }", "x = match (1) { y => y }", "printf(\"\")", "x = [1][0]", "x = {k: 1}.k"}

func c01LimitProgram(c *C01Limit) string {
	rep := strings.Repeat
	return "function g() { " + c.Stmt + " }\n" +
		"function f(n) { if (n > 0) { " + rep("if (1) { ", 13) + "return f(n - 1)" + rep(" }", 13) + " }\n" +
		rep("if (1) { ", c.Blocks) + "x = " + rep("0 + (", c.Extra) + "g()" + rep(")", c.Extra) + rep(" }", c.Blocks) + "\nreturn 0 }\n" +
		"BEGIN { print \"pre\"\nf(" + fmt.Sprint(c.Depth) + ")\nprint \"done\" }"
}

// c01LimitCheck: the run completes or stops with a runtime error - whatever statement the
// limit is reached at.
func c01LimitCheck(c *C01Limit) (string, string) {
	o := run.InProc(c01LimitProgram(c), nil, nil, run.Opts{Budget: 2_000_000_000})
	switch o.Class {
	case "ok", "runtime":
		switch strings.TrimSpace(o.Msg) {
		case "next", "exit", "break", "continue", "return":
			return fmt.Sprintf("the internal control-flow signal %q surfaces as an error", o.Msg), o.Class
		}
		if !strings.HasPrefix(string(o.Stdout), "pre\n") {
			return fmt.Sprintf("output before the limit is missing: %q", clip(string(o.Stdout))), o.Class
		}
		return "", o.Class
	case "panic":
		return "internal panic: " + o.Panic, o.Class
	}
	return fmt.Sprintf("outcome %s (%s)", o.Class, o.Msg), o.Class
}

// ---- flat, long program texts (through the binary only: a stack overflow cannot be recovered from) ----

type C01Flat struct {
	Shape string `json:"shape"`
	N     int    `json:"n"`
}

var c01FlatShapes = []string{"blank-lines-between-rules", "comment-lines-between-rules", "crlf-blank-lines-between-rules", "blank-lines-between-statements",
	"blank-lines-inside-an-array-literal", "blank-lines-before-a-syntax-error", "statements", "semicolons", "rules", "array-literal-elements", "print-arguments", "string-literal", "comment"}

// c01FlatText builds the text and, where the grammar leaves no doubt, the expected output.
func c01FlatText(c *C01Flat) (text string, wantOut string, wantExit int) {
	n := c.N
	rep := strings.Repeat
	switch c.Shape {
	case "blank-lines-between-rules":
		return "BEGIN { print 1 }" + rep("\n", n) + "END { print 2 }", "1\n2\n", 0
	case "comment-lines-between-rules":
		return "BEGIN { print 1 }" + rep("\n# c\n", n/2) + "END { print 2 }", "1\n2\n", 0
	case "crlf-blank-lines-between-rules":
		return "BEGIN { print 1 }" + rep("\r\n", n/2) + "END { print 2 }", "1\n2\n", 0
	case "blank-lines-between-statements":
		return "BEGIN { print 1" + rep("\n", n) + "print 2 }", "1\n2\n", 0
	case "blank-lines-inside-an-array-literal":
		return "BEGIN { x = [ 1 ," + rep("\n", n) + "2 ]\nprint x.length() }", "2\n", 0
	case "blank-lines-before-a-syntax-error":
		return "BEGIN { print 1 }" + rep("\n", n) + "END { print 2 ) }", "", 1
	case "statements":
		return "BEGIN { x = 0\n" + rep("x = x + 1\n", n/12) + "print x }", fmt.Sprintf("%d\n", n/12), 0
	case "semicolons":
		return "BEGIN { print 1 " + rep(";", n) + " print 2 }", "", -1
	case "rules":
		return rep("BEGIN { n++ }\n", n/12) + "END { print n }", fmt.Sprintf("%d\n", n/12), 0
	case "array-literal-elements":
		return "BEGIN { x = [ " + rep("1, ", n/12) + "1 ]\nprint x.length() }", fmt.Sprintf("%d\n", n/12+1), 0
	case "print-arguments":
		return "BEGIN { print 1 }\nEND { x = [ " + rep("1, ", 10) + "1 ]\nprint \"\"" + rep(", \"\"", n/48) + " }", "", -1
	case "string-literal":
		return "BEGIN { x = \"" + rep("a", n) + "\"\nprint x.length() }", fmt.Sprintf("%d\n", n), 0
	case "comment":
		return "BEGIN { print 1 } # " + rep("c", n) + "\nEND { print 2 }", "1\n2\n", 0
	}
	return "", "", -1
}

func c01FlatCheck(c *C01Flat) string {
	if run.CLIBinary() == "" {
		return ""
	}
	text, wantOut, wantExit := c01FlatText(c)
	res, err := run.CLI(run.CLIOpts{Args: []string{"-f", "p.jqawk"}, Files: map[string][]byte{"p.jqawk": []byte(text)}, Timeout: 120 * time.Second, MemLimitKB: 6 << 20})
	if err != nil || res.TimedOut {
		return "" // inconclusive
	}
	desc := fmt.Sprintf("a flat program text (%s, %d repetitions, %d bytes)", c.Shape, c.N, len(text))
	if res.Signal != "" {
		return desc + ": the binary was killed by " + res.Signal
	}
	if m := run.LooksLikeCrash(res.Stderr); m != "" {
		return fmt.Sprintf("%s: the binary crashed (%s): %s", desc, m, clip(string(res.Stderr)))
	}
	if res.Exit != 0 && res.Exit != 1 {
		return fmt.Sprintf("%s: the binary exits with status %d: %s", desc, res.Exit, clip(string(res.Stderr)))
	}
	if res.Exit == 1 && len(strings.TrimSpace(string(res.Stderr))) == 0 {
		return desc + ": exit status 1 without a diagnostic"
	}
	if wantExit >= 0 && (res.Exit != wantExit || (wantExit == 0 && string(res.Stdout) != wantOut) || (wantExit == 1 && len(res.Stdout) != 0)) {
		return fmt.Sprintf("%s: exit status %d, output %q (stderr %q); expected exit status %d, output %q", desc, res.Exit, clip(string(res.Stdout)), clip(string(res.Stderr)), wantExit, wantOut)
	}
	return ""
}

func firstN(s string, n int) string {
	if len(s) > n {
		return s[:n] + "..."
	}
	return s
}

// ---- G1: structured programs with unrestricted control keywords, then mutated ----------------

var c01Keywords = []string{"next", "exit", "break", "continue", "return", "return 1", "BEGIN", "END", "function", "match", "in", "is", "else", "print", "for", "while", "if", "null", "$", "BEGINFILE", "ENDFILE"}

func c01Base(t *rapid.T) *DCase {
	switch rapid.IntRange(0, 7).Draw(t, "source") {
	case 0, 1:
		c, _ := genC07(t, 3)
		return c
	case 2:
		c, _ := genC08(t)
		return c
	case 3:
		c, _ := genC19(t)
		return c
	case 4:
		c, _ := genC02(t)
		return c
	case 5:
		c, _, _ := genC17(t)
		return c
	case 6:
		c, _ := genC18(t)
		return c
	default:
		c, _ := genC09(t, 6)
		return c
	}
}

func c01Mutate(t *rapid.T, toks []ast.Tok) ([]ast.Tok, string) {
	raw := func(s string) ast.Tok { return ast.Tok{Text: s, Kind: ast.TRaw} }
	sep := ast.Tok{Kind: ast.TSep}
	if len(toks) == 0 {
		return toks, "none"
	}
	at := rapid.IntRange(0, len(toks)-1).Draw(t, "at")
	ins := func(i int, ts ...ast.Tok) []ast.Tok {
		out := append([]ast.Tok{}, toks[:i]...)
		out = append(out, ts...)
		return append(out, toks[i:]...)
	}
	switch rapid.IntRange(0, 8).Draw(t, "mutation") {
	case 0:
		return append(append([]ast.Tok{}, toks[:at]...), toks[at+1:]...), "delete-token"
	case 1:
		return ins(at, toks[at]), "duplicate-token"
	case 2:
		if at+1 < len(toks) {
			out := append([]ast.Tok{}, toks...)
			out[at], out[at+1] = out[at+1], out[at]
			return out, "swap-tokens"
		}
	case 3:
		out := append([]ast.Tok{}, toks...)
		out[at] = raw(rapid.SampledFrom(c01Keywords).Draw(t, "kw"))
		return out, "replace-by-keyword"
	case 4, 5:
		// a control keyword as its own statement at a random statement boundary
		var seps []int
		for i, tk := range toks {
			if tk.Kind == ast.TSep {
				seps = append(seps, i)
			}
		}
		if len(seps) > 0 {
			i := seps[rapid.IntRange(0, len(seps)-1).Draw(t, "sepat")]
			return ins(i+1, raw(rapid.SampledFrom([]string{"next", "exit", "break", "continue", "return", "return 1"}).Draw(t, "ctl")), sep), "splice-control-keyword"
		}
	case 6:
		b := []byte{byte(rapid.IntRange(0, 255).Draw(t, "byte"))}
		return ins(at, raw(string(b))), "insert-byte"
	case 7:
		return toks[:at], "truncate"
	}
	return ins(at, raw(rapid.SampledFrom([]string{"(", ")", "{", "}", "[", "]", ",", ";", "=>", ".", "=", "\"", "'", "/", "#"}).Draw(t, "punct"))), "insert-punctuation"
}

var c01Selectors = []string{
	"$", "$.a", "$[0]", "match ($) { x => { exit } }", "match (1) { 1 => { next } }", "match ($) { [a, b] => a, x => { print \"sel\" } }",
	"printf(\"x\")", "nofn()", "1 / 0", "$ = 1", "x = $", "match (1) { 1 => { print \"s\" ; exit } }", "[$, $]", "{k: $}", "$.a.b.c", "json($)", "num(\"x\")",
	"", "(", "match", "$nope", "$[0 - 9]", "\"\\q\"", "match ($) { x => match (x) { y => { next } } }",
}

var c01Inputs = []string{
	`[1,2,3]`, `{"a":[1,{"b":2}],"c":"x"}`, "1\n2\n3", `[{"a":1},{"a":null}]`, "", "   \n", `[1,2`, `{"a":`, "garbage", `[1] ] [2]`, `"str"`, `null`,
	`1e999`, `123456789012345678901234567890`, `[[[[[[[[[[[[[[[[[[[[1]]]]]]]]]]]]]]]]]]]]`, "\xff\xfe", `{"a":1}{"a":2}`, `[] {} [[]]`, `{"length":1,"push":2}`,
}

func genC01G1(t *rapid.T) (*C01Case, []string) {
	base := c01Base(t)
	r := ast.Render(base.Prog, ast.Full)
	toks := r.Toks
	var labels []string
	nm := rapid.IntRange(0, 3).Draw(t, "nmut")
	for k := 0; k < nm; k++ {
		var l string
		toks, l = c01Mutate(t, toks)
		labels = append(labels, "mutation:"+l)
	}
	src := (&ast.Rendering{Toks: toks}).Join(ast.Canonical{}).Src
	c := &C01Case{Prog: ast.BS(src), Gen: "G1"}
	ns := rapid.SampledFrom([]int{0, 0, 0, 1, 1, 2}).Draw(t, "nsel")
	for k := 0; k < ns; k++ {
		c.Sels = append(c.Sels, ast.BS(rapid.SampledFrom(c01Selectors).Draw(t, "sel")))
		labels = append(labels, "has-selector")
	}
	if rapid.IntRange(0, 3).Draw(t, "owninput") == 0 || len(base.Files) == 0 {
		ni := rapid.IntRange(1, 2).Draw(t, "ninputs")
		for k := 0; k < ni; k++ {
			c.Input = append(c.Input, ast.BS(rapid.SampledFrom(c01Inputs).Draw(t, "input")))
		}
		labels = append(labels, "hostile-input")
	} else {
		for _, f := range base.Files {
			c.Input = append(c.Input, ast.BS(strings.Join(f.Docs, "\n")))
		}
	}
	return c, labels
}

// ---- G2: every control keyword in every kind of place --------------------------------------------

func c01G2() []*C01Case {
	var out []*C01Case
	type wrapper struct {
		name string
		f    func(kw string) string
	}
	wrap := []wrapper{
		{"bare", func(kw string) string { return kw }},
		{"while", func(kw string) string { return "wi = 0\nwhile (wi++ < 2) { print \"w\"\n" + kw + "\nprint \"w2\" }" }},
		{"for", func(kw string) string { return "for (fi = 0; fi < 2; fi++) { print \"f\"\n" + kw + "\nprint \"f2\" }" }},
		{"forin", func(kw string) string { return "for (x in [1, 2]) { print \"i\"\n" + kw + "\nprint \"i2\" }" }},
		{"if", func(kw string) string { return "if (1) { print \"c\"\n" + kw + " }" }},
	}
	places := map[string]func(w string) (prog string, sel string){
		"BEGIN":     func(w string) (string, string) { return "BEGIN { print \"b\"\n" + w + "\nprint \"b2\" }\n{ print }\nEND { print \"e\" }", "" },
		"END":       func(w string) (string, string) { return "{ print }\nEND { print \"e\"\n" + w + "\nprint \"e2\" }", "" },
		"BEGINFILE": func(w string) (string, string) { return "BEGINFILE { print \"bf\"\n" + w + "\nprint \"bf2\" }\n{ print }\nENDFILE { print \"ef\" }", "" },
		"ENDFILE":   func(w string) (string, string) { return "{ print }\nENDFILE { print \"ef\"\n" + w + "\nprint \"ef2\" }\nEND { print \"e\" }", "" },
		"pattern-body": func(w string) (string, string) { return "{ print \"p\"\n" + w + "\nprint \"p2\" }\n{ print \"q\" }", "" },
		"pattern-expression": func(w string) (string, string) {
			return "function f() { print \"f\"\n" + w + "\nreturn 1 }\nf() { print \"body\" }\n{ print \"q\" }", ""
		},
		"function-body": func(w string) (string, string) {
			return "function f() { print \"f\"\n" + w + "\nprint \"f2\" }\n{ f()\nprint \"after\" }\nEND { print \"e\" }", ""
		},
		"match-expression-body": func(w string) (string, string) {
			return "function f() { print \"f\"\n" + w + "\nreturn 1 }\n{ x = match (1) { 1 => f() }\nprint \"after\", x }", ""
		},
		"match-block-body": func(w string) (string, string) {
			return "{ match (1) { 1 => { print \"m\"\n" + w + "\nprint \"m2\" } }\nprint \"after\" }\nEND { print \"e\" }", ""
		},
		"while-condition": func(w string) (string, string) {
			return "{ n = 0\nwhile (match (n++) { 0 => { " + strings.ReplaceAll(w, "\n", " ; ") + " }, x => 0 }) { print \"body\" }\nprint \"after\" }", ""
		},
		"for-header": func(w string) (string, string) {
			blk := "match (1) { 1 => { " + strings.ReplaceAll(w, "\n", " ; ") + " } }"
			return "{ for (i = " + blk + "; i < 1; i++) { print \"b1\" }\nfor (i = 0; i < 1 && " + blk + "; i++) { print \"b2\" }\nfor (i = 0; i < 1; i = i + 1 + " + blk + ") { print \"b3\" }\nprint \"after\" }", ""
		},
		"forin-iterable": func(w string) (string, string) {
			return "{ for (x in match (1) { 1 => { " + strings.ReplaceAll(w, "\n", " ; ") + " }, y => [1] }) { print \"body\" }\nprint \"after\" }", ""
		},
		"method-argument": func(w string) (string, string) {
			return "{ a = [1]\na.push(match (1) { 1 => { " + strings.ReplaceAll(w, "\n", " ; ") + " } })\nprint \"after\", a }", ""
		},
		"selector": func(w string) (string, string) { return "{ print }\nEND { print \"e\" }", "match (1) { 1 => { " + strings.ReplaceAll(w, "\n", " ; ") + " } }" },
	}
	inputs := []string{"", "[1,2]", "[1]\n{\"a\":2}"}
	for _, kw := range []string{"next", "exit", "break", "continue", "return", "return 5"} {
		for _, pn := range sortedKeys(places) {
			place := places[pn]
			for _, wr := range wrap {
				wn, w := wr.name, wr.f
				for ii, in := range inputs {
					prog, sel := place(w(kw))
					c := &C01Case{Prog: ast.BS(prog), Input: []ast.BS{ast.BS(in)}, Gen: fmt.Sprintf("G2 %s/%s/%s/input%d", kw, pn, wn, ii), CLI: true}
					if sel != "" {
						c.Sels = []ast.BS{ast.BS(sel)}
					}
					out = append(out, c)
				}
			}
		}
	}
	return out
}

// ---- G3: byte strings and deep nests ------------------------------------------------------------------

// c01Hostile: the fixed hostile constants plus "the first thing a process does": a value that
// comes into being in one particular way (auto-created by an index or member store on a name
// never assigned, a literal, a document value, a method result) and is used at once through
// every method and operator form, with nothing before it in the run (lazily built state
// such as method tables is first touched on exactly this path). Short programs: each goes
// through the binary, i.e. a fresh process.
func c01Hostile() []string {
	out := c01HostileFixed()
	// string literals and quoted keys ending in a run of backslashes
	for n := 1; n <= 6; n++ {
		bs := strings.Repeat("\\", n)
		out = append(out, "BEGIN { x = \"a"+bs+"\"\nprint x }", "BEGIN { o = { \"k"+bs+"\": 1 }\nprint o }", "BEGIN { print '"+bs+"' ~ \""+bs+"\" }")
	}
	makers := []string{"a[0] = 1", "a[2] = 1", "a.k = 1", "a.b[0] = 1 ; a = a.b", "a.b.c = 1 ; a = a.b", "a = []", "a = {}", "a = \"s\"", "a = 2.5", "a = \"x,y\".split(\",\")", "a = [2, 1].sort()",
		"a = {k: 1}.pluck(\"k\")", "a = $", "a = json([1])", "a = num(\"3\")", "a = /x/", "a = null", "a = true"}
	uses := []string{"print a.length()", "a.push(2) ; print a", "print a.pop()", "print a.popfirst()", "print a.contains(1)", "print a.sort()", "print a.pluck(\"k\")", "print a.split(\"\")",
		"print a.upper(), a.lower()", "print a.floor(), a.ceil(), a.round()", "print a.nosuch", "print a.length", "print a[0], a[-1], a.k", "for (v, i in a) { print v, i }", "print json(a)", "print a + 1, a == a",
		"printf(\"%v|%s\\n\", a, a)", "print match (a) { [x] => x, y => y }"}
	for _, m := range makers {
		for _, u := range uses {
			out = append(out, "BEGIN { "+m+" ; "+u+" }")
		}
	}
	return out
}

func c01HostileFixed() []string {
	rep := strings.Repeat
	return []string{
		rep("(", 20000), rep("[", 20000), rep("{", 20000), "BEGIN { x = " + rep("!", 20000) + "1 }", "BEGIN { x = " + rep("-", 20000) + "1 }",
		"BEGIN { x = " + rep("(", 5000) + "1" + rep(")", 5000) + " ; print x }", "BEGIN { x = " + rep("[", 3000) + rep("]", 3000) + " ; print x }",
		rep("match (1) { 1 => ", 3000) + "1" + rep(" }", 3000), "BEGIN { " + rep("if (1) ", 10000) + "print 1 }", "BEGIN { " + rep("{", 10000) + rep("}", 10000) + " }",
		"BEGIN { a[1048577] = 1 }", "BEGIN { printf(\"%65537s\", \"x\") }", "BEGIN { printf(\"%99999999999999999999s\", \"x\") }", "BEGIN { a = [] ; a[0 - 1] = 1 }",
		"BEGIN { x = 1 " + rep("+ 1 ", 10000) + "; print x }", "BEGIN { x = \"" + rep("a", 60000) + "\" ; print x.length() }", "function f(n) { return f(n + 1) } BEGIN { f(0) }",
		"function f(n) { return match (n) { k => f([k]) } } BEGIN { f(0) }", "BEGIN { s = \"a\" ; while (1) { s = s + s } }", "BEGIN { while (1) { a.push(a) } }",
		"BEGIN { a = [] ; a[0] = a ; print a ; print json(a) }", "BEGIN { o = {} ; o.o = o ; print o ; x = json(o) }", "{ $ = $ ; $.x = $ ; print }", "BEGIN { next }", "END { next }",
		"BEGIN { x = /" + rep("(a*)*", 200) + "b/ ; print \"" + rep("a", 2000) + "\" ~ x }", "BEGIN { print 1 % 0.5, 0 % 0 }", "BEGIN { print 1e5 }", "BEGIN { print 1.2.3 }", "BEGIN { print 1..floor() }",
		"\x00", "\xff", "BEGIN { print \"\xff\xfe\" }", "é", "BEGIN{$++}''~'('", "$ $ $", "BEGIN { f = printf ; f(\"x\") }", "BEGIN { printf(printf) }", "BEGIN { json(json) }", "BEGIN { x = num ; print x(\"1\") }",
		"BEGIN { o = {} ; o.pluck(o = 1) }", "BEGIN { a = [1] ; a.push(a = 5) ; a.pop(a = \"s\") ; print a }", "BEGIN { s = \"x\" ; s.split(s = 1) ; n = 2.5 ; n.floor(n = []) }", "BEGIN { s = \"abc\" ; print s.upper(s = 1) ; t = \"abc\" ; print t.lower(t = []) ; u = \"ab\" ; print u.length(u = {}) }", "BEGIN { o = {a: 1} ; print o.length(o = 1), o ; a = [2, 1] ; print a.sort(a = \"s\"), a.contains(a = 1) }",
		"BEGIN { o = {a: 1} ; print o.pluck(o = null, \"a\"), o.length(o = 3) }", "BEGIN { a = [3,1] ; print a.sort(a = 0), a.contains(a = {}) }",
		"BEGIN { while (match (1) { 1 => { break } }) {} }", "BEGIN { for (i = 0; match (i) { x => { continue } }; i++) {} }",
		"function f(n) { return f(n + 1)" + rep(" + 1", 100) + " } BEGIN { print f(0) }", "function f(n) { return " + rep("!", 120) + "f(n + 1) } BEGIN { print f(0) }",
		"function f(n) { " + rep("if (true) { ", 150) + "return f(n + 1)" + rep(" }", 150) + " } BEGIN { f(0) }", "function f(n) { return [[[[[[[[[[[[[[[[[[[[f(n + 1)]]]]]]]]]]]]]]]]]]]] } BEGIN { f(0) }",
		"function f(n) { return match (n) { k => f([k]) } } function g() { return f(0) } BEGIN { print g() }", "function f(n) { match (n) { k => { return f(k + 1) } } } function g() { return f(0) } function h() { return g() } { print h() }",
		"BEGIN { print \"a\" ~ \"\", \"\" !~ \"\", \"a\" ~ '', 1 ~ \"\" } { e = \"\" ; print $ ~ e, $ ~ $.nosuch.x, e ~ e }", "BEGIN { r = // ; print \"a\" ~ r }", "{ print $ ~ //, $ !~ // }",
		"BEGIN { \"abc\".split(\"\").sort().push(1).pop().floor().round() }", "BEGIN { [1,2,3].sort(1,2).length(5) }", "BEGIN { {}.pluck() ; {a:1}.pluck(null) }", "BEGIN { for (k, v in \"\xff\xfe\") print k, v }",
	}
}

func TestC01(t *testing.T) {
	rec := start(t, "C01", "exploration",
		"G1: programs from seven structured generators, rendered to tokens and hit by 0-3 mutations (delete / duplicate / swap a token, replace a token by a keyword, splice a control keyword as a statement at any statement boundary regardless of context, insert an arbitrary byte or punctuation, truncate), with 0-2 selectors from a pool that includes match blocks executing exit / next / print, and inputs that are the generator's own document or hostile streams (empty, whitespace, truncated, garbage, JSONL, stray brackets, huge numbers, invalid UTF-8). G2 (complete): {next, exit, break, continue, return, return 5} x {BEGIN, END, BEGINFILE, ENDFILE, pattern body, pattern expression via a function, function body, match expression body via a function, match block body, a match block in a while condition / in each clause of a for header / in a for-in iterable / in a method argument, selector via a match block} x {bare, inside while / for / for-in / if} x {no input value, two values, two documents}, each also through the binary with and without -o -. G3: arbitrary byte strings, byte edits of G1 renderings, and hostile constants (nests of ( [ { ! - match to depth 20000, runaway recursion and doubling loops under the cost budget, limits, cyclic values, pathological regexes). G4: every byte prefix of a program text (up to 400 bytes; hand-written texts full of dotted numbers, and random layouts of the C13 generators) as a program and, up to 80 bytes, as a selector. Oracle: the error returned by lang.EvalProgram is nil, SyntaxError, RuntimeError or JsonError; nothing is recovered by recover(); the process survives (in-flight file protocol); every error satisfies the C12 line invariant; sampled cases through the binary: exit status 0 or 1, stderr non-empty iff 1, no panic / fatal error / signal. A run stopped by the cost budget (200k units, verif hook) is inconclusive and counted. Non-trivial: the program parsed and evaluated something, or failed to parse beyond its first token, or is a G2 case. distinct = distinct (program, selectors, input).")
	defer rec.Finish()
	rec.Assume("the cost-budget hook (build tag verif) only ever stops a run early; it adds no behaviour")
	rec.Replayer("nesting-limit", func(raw json.RawMessage) error {
		var c C01Limit
		if err := json.Unmarshal(raw, &c); err != nil {
			return err
		}
		if m, _ := c01LimitCheck(&c); m != "" {
			return fmt.Errorf("%s", m)
		}
		return nil
	})
	rec.Replayer("flat-text", func(raw json.RawMessage) error {
		var c C01Flat
		if err := json.Unmarshal(raw, &c); err != nil {
			return err
		}
		if m := c01FlatCheck(&c); m != "" {
			return fmt.Errorf("%s", m)
		}
		return nil
	})
	rec.Replayer("outcome", func(raw json.RawMessage) error {
		var c C01Case
		if err := json.Unmarshal(raw, &c); err != nil {
			return err
		}
		if m, _ := c01Check(&c); m != "" {
			return fmt.Errorf("%s\nprogram:\n%s\nselectors: %q", m, clip(string(c.Prog)), c.Sels)
		}
		return nil
	})
	if rec.ReplayOnly() {
		return
	}
	rec.ReplayTier()

	record := func(c *C01Case, class string, labels ...string) {
		nt := strings.HasPrefix(c.Gen, "G2") || class == "ok" || class == "runtime" || class == "json"
		key := string(c.Prog) + "\x00" + fmt.Sprint(c.Sels) + "\x00" + fmt.Sprint(c.Input)
		if class == "budget" {
			rec.Discard("stopped by the cost budget (inconclusive)")
			return
		}
		rec.Case(key, nt, append(labels, "outcome:"+class)...)
		rec.Sample(func() interface{} {
			return map[string]interface{}{"program": clip(string(c.Prog)), "selectors": c.Sels, "inputs": c.Input, "outcome": class, "generator": c.Gen}
		})
	}

	shard, nshards := shardInfo()
	for i, c := range c01G2() {
		if i%nshards != shard || rec.ViolationCount() >= 8 {
			continue
		}
		msg, class := c01Check(c)
		record(c, class, "G2")
		if msg != "" {
			rec.Violation("outcome", c, string(c.Prog), c.Gen+": "+msg)
		}
	}
	rec.Exhaustive("G2: control keyword x place x wrapper x input (complete)")
	// G5: recursion with 14 nested blocks per call down to the deepest depth that still works, then
	// 0-24 more blocks around a call of g(), whose body is one statement of every kind: the nesting
	// limit is reached exactly at that statement for some number of blocks
	if 1%nshards == shard {
		lo, hi := 1, 4090
		for lo < hi {
			mid := (lo + hi + 1) / 2
			if _, cl := c01LimitCheck(&C01Limit{Stmt: "x = 1", Depth: mid}); cl == "ok" {
				lo = mid
			} else {
				hi = mid - 1
			}
		}
		for _, st := range c01LimitStmts {
			flips, refused := 0, 0
			prev := ""
			for bb := 0; bb <= 49; bb++ {
				// (blocks cost two levels each, an operand one: every level is reached)
				b := bb / 2
				c := &C01Limit{Stmt: st, Depth: lo, Blocks: b, Extra: bb % 2}
				msg, cl := c01LimitCheck(c)
				if prev != "" && cl != prev {
					flips++
				}
				prev = cl
				if cl == "runtime" {
					refused++
					if refused > 6 {
						break // well beyond the limit: nothing changes any more
					}
				}
				rec.Case(fmt.Sprintf("limit %q %d %d %d", st, lo, b, c.Extra), true, "G5-statement-at-the-nesting-limit")
				if msg != "" {
					rec.Violation("nesting-limit", c, c01LimitProgram(c), fmt.Sprintf("statement %q at recursion depth %d inside %d more blocks (+%d): %s", st, lo, b, c.Extra, msg))
					break
				}
			}
			if flips == 0 {
				rec.Label("G5-limit-not-crossed")
			}
		}
	}
	// G4: flat texts (blank lines, comment lines, statements, rules, elements, ... repeated
	// thousands of times) up to the 64 KiB that C01 speaks of, through the binary
	if run.CLIBinary() != "" {
		for i, sh := range c01FlatShapes {
			if i%nshards != shard {
				continue
			}
			for _, n := range []int{1200, 12000, 24000, 60000} {
				c := &C01Flat{Shape: sh, N: n}
				if text, _, _ := c01FlatText(c); len(text) > 64<<10 {
					continue // beyond the claim
				}
				msg := c01FlatCheck(c)
				rec.Case(fmt.Sprintf("flat %s %d", sh, n), n >= 12000, "G4-flat-long-text", "flat:"+sh)
				if msg != "" {
					rec.Violation("flat-text", c, "("+sh+")", msg)
					break
				}
			}
		}
	}
	for i, h := range c01Hostile() {
		if i%nshards != shard {
			continue
		}
		for _, in := range []string{"", "[1,[2]]"} {
			c := &C01Case{Prog: ast.BS(h), Input: []ast.BS{ast.BS(in)}, Gen: "G3 hostile constant", CLI: len(h) < 5000}
			msg, class := c01Check(c)
			record(c, class, "G3-hostile")
			if msg != "" {
				rec.Violation("outcome", c, clip(h), msg)
			}
		}
	}

	check(rec, "outcome-structured", scale(16000, 1600000), func(rt *rapid.T) {
		c, labels := genC01G1(rt)
		c.CLI = rapid.IntRange(0, 79).Draw(rt, "cli") == 0
		msg, class := c01Check(c)
		record(c, class, append(labels, "G1")...)
		if msg != "" {
			rec.Pending("outcome", c, string(c.Prog), msg)
			rt.Fatalf("%s\nprogram:\n%s\nselectors %q", msg, c.Prog, c.Sels)
		}
	})

	check(rec, "outcome-bytes", scale(6000, 800000), func(rt *rapid.T) {
		var prog string
		switch rapid.IntRange(0, 2).Draw(rt, "bytekind") {
		case 0:
			prog = string(rapid.SliceOfN(rapid.Byte(), 0, 200).Draw(rt, "bytes"))
		case 1:
			// printable soup over the language's alphabet
			prog = rapid.StringOfN(rapid.SampledFrom([]rune("{}[]()$.,;:=!<>+-*/%~&|\"'# \n\tabcxyz019BEGINprintforinmatch=>")), 0, 120, -1).Draw(rt, "soup")
		default:
			base, _ := genC01G1(rt)
			b := []byte(base.Prog)
			for k, n := 0, rapid.IntRange(1, 4).Draw(rt, "nedits"); k < n && len(b) > 0; k++ {
				i := rapid.IntRange(0, len(b)-1).Draw(rt, "pos")
				switch rapid.IntRange(0, 2).Draw(rt, "edit") {
				case 0:
					b[i] = byte(rapid.IntRange(0, 255).Draw(rt, "nb"))
				case 1:
					b = append(b[:i], b[i+1:]...)
				default:
					b = append(b[:i], append([]byte{byte(rapid.IntRange(0, 255).Draw(rt, "ib"))}, b[i:]...)...)
				}
			}
			prog = string(b)
		}
		c := &C01Case{Prog: ast.BS(prog), Input: []ast.BS{ast.BS(rapid.SampledFrom(c01Inputs).Draw(rt, "input"))}, Gen: "G3 bytes"}
		if rapid.IntRange(0, 4).Draw(rt, "sel") == 0 {
			c.Sels = []ast.BS{ast.BS(rapid.SampledFrom(c01Selectors).Draw(rt, "selector"))}
		}
		msg, class := c01Check(c)
		record(c, class, "G3-bytes")
		if msg != "" {
			rec.Pending("outcome", c, string(c.Prog), msg)
			rt.Fatalf("%s\nprogram: %q", msg, prog)
		}
	})
	// every byte prefix of a program text (a text that stops anywhere: inside a number,
	// after a dot, inside a string, an operator or a keyword) as a program and, when
	// short, as a selector
	check(rec, "outcome-prefixes", scale(120, 12000), func(rt *rapid.T) {
		var text string
		if rapid.IntRange(0, 2).Draw(rt, "prefixsource") == 0 {
			text = rapid.SampledFrom([]string{
				"{ x[1.5] = 2.25 ; print $[0.5], 1.e, 7.floor() }", "$ > 1.5 { print 3. }", "BEGIN { printf(\"%5.2f|%-3s\", 1.25, 'é') ; x = .5 }",
				"BEGIN { a = [1, 2.0, 3.75][1.] ; o = {k: 0.1}.k ; print a / 2. ~ /1\\.5/ }", "{ print $.a.b[0].c , $[0 - 1.0] , -2.5.round() , 1e3 , 0x10 , 1_0 }",
			}).Draw(rt, "dotted")
		} else {
			base, _ := c13Base(rt)
			r := ast.Render(base.Prog, ast.Minimal)
			text = r.Join(gen.NewRandLayout(rt)).Src
		}
		if len(text) > 400 {
			start := rapid.IntRange(0, len(text)-400).Draw(rt, "window")
			text = text[start : start+400]
		}
		for cut := 0; cut <= len(text); cut++ {
			c := &C01Case{Prog: ast.BS(text[:cut]), Input: []ast.BS{ast.BS(`[1,{"a":2}]`)}, Gen: "G4 byte prefix"}
			msg, class := c01Check(c)
			record(c, class, "G4-prefix")
			if msg == "" && cut <= 80 && cut > 0 {
				c = &C01Case{Prog: ast.BS("{ print }"), Sels: []ast.BS{ast.BS(text[:cut])}, Input: []ast.BS{ast.BS(`[1,{"a":2}]`)}, Gen: "G4 byte prefix as a selector"}
				msg, class = c01Check(c)
				record(c, class, "G4-prefix-selector")
			}
			if msg != "" {
				rec.Pending("outcome", c, string(c.Prog), msg)
				rt.Fatalf("%s\nprogram: %q selectors %q", msg, c.Prog, c.Sels)
			}
		}
	})
	_ = gen.AllBin
}
