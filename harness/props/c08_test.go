package props

import (
	"bytes"
	"encoding/json"
	"fmt"
	"strings"
	"testing"

	"verif/harness/ast"
	"verif/harness/ev"
	"verif/harness/run"

	"pgregory.net/rapid"
)

// C08 — calls bind by position and value; completed calls and matches leave no
// residue (DESIGN.md 4.2).

type c08Fun struct {
	name      string
	params    []string
	locals    []string // names first created inside the function
	recursive bool
}

type c08Gen struct {
	t      *rapid.T
	funs   []*c08Fun
	labels map[string]bool
	id     int
}

func (g *c08Gen) n(lo, hi int, l string) int { return rapid.IntRange(lo, hi).Draw(g.t, l) }
func (g *c08Gen) b(l string) bool           { return rapid.Bool().Draw(g.t, l) }

// valExpr: an expression over the names visible inside function f (its
// parameters, its own locals already assigned, and the pre-existing globals).
func (g *c08Gen) valExpr(f *c08Fun, assigned []string, depth int) *ast.Node {
	var names []string
	names = append(names, f.params...)
	names = append(names, assigned...)
	names = append(names, "g1", "g2")
	switch g.n(0, 5, "vkind") {
	case 0:
		return ast.Num(fmt.Sprint(g.n(0, 9, "lit")))
	case 1:
		return ast.Str(rapid.SampledFrom([]string{"s", "t", ""}).Draw(g.t, "slit"))
	case 2, 3:
		return ast.Id(names[g.n(0, len(names)-1, "name")])
	default:
		if depth <= 0 {
			return ast.Id(names[g.n(0, len(names)-1, "name2")])
		}
		return ast.Bin(rapid.SampledFrom([]string{"+", "-", "*"}).Draw(g.t, "op"), g.valExpr(f, assigned, depth-1), g.valExpr(f, assigned, depth-1))
	}
}

// callExpr builds a call to function number >= minIdx (no cycles except the
// controlled self-recursion), with an argument count below / at / above arity.
func (g *c08Gen) callExpr(minIdx int, arg func() *ast.Node) *ast.Node {
	if minIdx >= len(g.funs) {
		return arg()
	}
	f := g.funs[g.n(minIdx, len(g.funs)-1, "callee")]
	argc := len(f.params)
	switch g.n(0, 5, "argc") {
	case 0:
		if argc > 0 {
			argc--
			g.labels["argc<arity"] = true
		}
	case 1:
		argc += g.n(1, 2, "extra")
		g.labels["argc>arity"] = true
	}
	args := make([]*ast.Node, argc)
	for k := range args {
		args[k] = arg()
	}
	if f.recursive {
		// first parameter is the decreasing counter
		if argc == 0 {
			args = []*ast.Node{ast.Num("2")}
		} else {
			args[0] = ast.Num(fmt.Sprint(g.n(0, 4, "recdepth")))
		}
	}
	return ast.Call(ast.Id(f.name), args...)
}

func (g *c08Gen) funBody(idx int) *ast.Node {
	f := g.funs[idx]
	var stmts []*ast.Node
	var assigned []string
	tr := func(tag string) {
		args := []*ast.Node{ast.Str(f.name + ":" + tag)}
		for _, p := range f.params {
			args = append(args, ast.Id(p))
		}
		stmts = append(stmts, ast.Print(args...))
	}
	tr("in")
	if f.recursive {
		// only parameters and globals: a local would be reached by the nested
		// activation through dynamic scope (unspecified)
		p0 := ast.Id(f.params[0])
		stmts = append(stmts, ast.If(ast.Bin("<=", p0, ast.Num("0")), ast.Block(ast.Return(ast.Num("0")))))
		if g.b("recglobal") {
			stmts = append(stmts, ast.ExprS(ast.Set(ast.Id("g1"), ast.Bin("+", ast.Id("g1"), ast.Num("1")))))
		}
		rec := ast.Call(ast.Id(f.name), ast.Bin("-", p0, ast.Num("1")))
		if len(f.params) > 1 && g.b("recarg2") {
			rec = ast.Call(ast.Id(f.name), ast.Bin("-", p0, ast.Num("1")), ast.Bin("+", ast.Id(f.params[1]), ast.Num("1")))
		}
		if g.b("recmutual") && idx+1 < len(g.funs) {
			// also call a later function on the way down
			stmts = append(stmts, ast.ExprS(ast.Set(ast.Id(f.params[0]), ast.Bin("+", p0, ast.Bin("*", ast.Num("0"), g.callExpr(idx+1, func() *ast.Node { return ast.Num("1") }))))))
			g.labels["recursion-calls-other"] = true
		}
		stmts = append(stmts, ast.Return(ast.Bin("+", ast.Num("1"), rec)))
		g.labels["recursion"] = true
		return ast.Block(stmts...)
	}
	n := g.n(1, 5, "nstmts")
	for k := 0; k < n; k++ {
		switch g.n(0, 10, "fstmt") {
		case 0: // reassign a parameter
			if len(f.params) > 0 {
				p := f.params[g.n(0, len(f.params)-1, "p")]
				stmts = append(stmts, ast.ExprS(ast.Set(ast.Id(p), g.valExpr(f, assigned, 1))))
				g.labels["param-reassigned"] = true
				tr("p")
			}
		case 1, 2: // create a local
			l := fmt.Sprintf("l%d_%d", idx, len(f.locals))
			f.locals = append(f.locals, l)
			stmts = append(stmts, ast.ExprS(ast.Set(ast.Id(l), g.valExpr(f, assigned, 1))))
			assigned = append(assigned, l)
			g.labels["callee-local"] = true
		case 3: // assign an existing global
			gl := rapid.SampledFrom([]string{"g1", "g2"}).Draw(g.t, "glob")
			stmts = append(stmts, ast.ExprS(ast.Set(ast.Id(gl), g.valExpr(f, assigned, 1))))
			g.labels["global-assigned-in-callee"] = true
		case 4: // nested call to a later function
			if idx+1 < len(g.funs) {
				l := fmt.Sprintf("l%d_%d", idx, len(f.locals))
				f.locals = append(f.locals, l)
				stmts = append(stmts, ast.ExprS(ast.Set(ast.Id(l), g.callExpr(idx+1, func() *ast.Node { return g.valExpr(f, assigned, 0) }))))
				assigned = append(assigned, l)
				g.labels["nested-call"] = true
			}
		case 5: // return from inside a loop / if
			v := g.valExpr(f, assigned, 1)
			w := fmt.Sprintf("l%d_%d", idx, len(f.locals))
			f.locals = append(f.locals, w)
			retat := ast.Num(fmt.Sprint(g.n(0, 3, "retat")))
			switch g.n(0, 4, "retloop") {
			case 0:
				// ... over the characters of a string, the elements of an array, the keys of an object
				stmts = append(stmts, ast.ForIn(w, "", ast.Str("012"), ast.Block(ast.If(ast.Bin("==", ast.Id(w), retat), ast.Block(ast.Return(v))))))
				g.labels["return-from-for-in-over-a-string"] = true
			case 1:
				stmts = append(stmts, ast.ForIn(w, "", ast.Arr(ast.Num("0"), ast.Num("1"), ast.Num("2")), ast.Block(ast.If(ast.Bin("==", ast.Id(w), retat), ast.Block(ast.Return(v))))))
			case 2:
				stmts = append(stmts, ast.ForIn(w, "", ast.Obj(ast.KV("k0", ast.Num("0"))), ast.Block(ast.If(ast.Bin("==", ast.Id(w), ast.Str("k"+string(retat.S))), ast.Block(ast.Return(v))))))
			default:
				stmts = append(stmts, ast.For(ast.Set(ast.Id(w), ast.Num("0")), ast.Bin("<", ast.Id(w), ast.Num("3")), ast.Post("++", ast.Id(w)),
					ast.Block(ast.If(ast.Bin("==", ast.Id(w), retat), ast.Block(ast.Return(v))))))
			}
			assigned = append(assigned, w)
			g.labels["return-from-loop"] = true
		case 6: // match with bindings; expression or block body; return from inside
			bnd := fmt.Sprintf("m%d_%d", idx, g.n(0, 1, "mname"))
			subj := g.valExpr(f, assigned, 0)
			l := fmt.Sprintf("l%d_%d", idx, len(f.locals))
			f.locals = append(f.locals, l)
			var m, after *ast.Node
			switch g.n(0, 5, "mform") {
			case 5:
				// a case with several alternatives: an earlier alternative binds names and then
				// fails; the names visible in the body are those of the alternative that matched
				mf := fmt.Sprintf("mf%d", idx)
				m = ast.Match(ast.Arr(subj, ast.Num("1")), ast.Case(ast.Block(
					ast.Print(ast.Str(f.name+":alt"), ast.Id(bnd), ast.Is(ast.Id(mf), "unknown"), ast.Id("g1"))),
					ast.Arr(ast.Id(mf), ast.Num("99")), ast.Arr(ast.Id("g1"), ast.Num("98")), ast.Arr(ast.Id(bnd), ast.Num("1"))))
				f.locals = append(f.locals, mf)
				g.labels["match-alternative-that-binds-and-fails"] = true
			case 4:
				// a match directly inside another case's body: the inner bindings (one of
				// them re-using the outer name) end with the inner case
				inner := fmt.Sprintf("mi%d", idx)
				im := ast.Match(ast.Bin("+", ast.Id(bnd), ast.Num("1")), ast.Case(ast.Bin("*", ast.Id(bnd), ast.Num("2")), ast.Id(bnd)))
				if g.b("innerblock") {
					im = ast.Match(ast.Arr(ast.Id(bnd), ast.Num("5")), ast.Case(ast.Block(ast.Print(ast.Str(f.name+":inner"), ast.Id(bnd), ast.Id(inner))), ast.Arr(ast.Id(inner), ast.Id(bnd))))
				}
				m = ast.Match(subj, ast.Case(ast.Block(
					ast.Print(ast.Str(f.name+":outer-before"), ast.Id(bnd)),
					ast.ExprS(ast.Set(ast.Id("g2"), im)),
					ast.Print(ast.Str(f.name+":outer-after"), ast.Id(bnd), ast.Is(ast.Id(inner), "unknown"))), ast.Id(bnd)))
				f.locals = append(f.locals, inner)
				g.labels["match-nested-in-case-body"] = true
			case 3:
				// a name first used inside the case body (inside the call): gone after the
				// case, and after the call
				ml := fmt.Sprintf("ml%d", idx)
				m = ast.Match(subj, ast.Case(ast.Block(ast.ExprS(ast.Set(ast.Id(ml), ast.Arr(ast.Id(bnd), ast.Num("7")))), ast.Print(ast.Str(f.name+":ml"), ast.Id(ml))), ast.Id(bnd)))
				f.locals = append(f.locals, ml)
				after = ast.Print(ast.Str(f.name+":mlb"), ast.Is(ast.Id(ml), "unknown"))
				g.labels["name-created-in-match-block-in-call"] = true
			case 0:
				m = ast.Match(subj, ast.Case(ast.Bin("+", ast.Id(bnd), ast.Num("1")), ast.Id(bnd)))
				g.labels["match-expr-body"] = true
			case 1:
				m = ast.Match(subj, ast.Case(ast.Block(ast.Print(ast.Str(f.name+":m"), ast.Id(bnd))), ast.Id(bnd)))
				g.labels["match-block-body"] = true
			default:
				m = ast.Match(subj, ast.Case(ast.Block(ast.Return(ast.Id(bnd))), ast.Id(bnd)))
				g.labels["return-from-match-block"] = true
			}
			stmts = append(stmts, ast.ExprS(ast.Set(ast.Id(l), m)))
			if after != nil && g.b("probe-inside-call") {
				stmts = append(stmts, after)
			}
			assigned = append(assigned, l)
			f.locals = append(f.locals, bnd)
			// the binding must be gone after the case
			stmts = append(stmts, ast.Print(ast.Str(f.name+":b"), ast.Is(ast.Id(bnd), "unknown")))
		case 9: // a bare return (yields null) guarded by a condition, possibly after a nested call returned something
			if idx+1 < len(g.funs) && g.b("callfirst") {
				l := fmt.Sprintf("l%d_%d", idx, len(f.locals))
				f.locals = append(f.locals, l)
				stmts = append(stmts, ast.ExprS(ast.Set(ast.Id(l), g.callExpr(idx+1, func() *ast.Node { return g.valExpr(f, assigned, 0) }))))
				assigned = append(assigned, l)
				g.labels["bare-return-after-nested-call"] = true
			}
			cond := ast.Bin(rapid.SampledFrom([]string{">", "<", "==", "!="}).Draw(g.t, "brop"), g.valExpr(f, assigned, 0), ast.Num(fmt.Sprint(g.n(0, 5, "brthr"))))
			stmts = append(stmts, ast.If(cond, ast.Block(ast.Return(nil))))
			g.labels["bare-return"] = true
		case 7: // first touch of a name that no rule ever assigns
			l := fmt.Sprintf("n%d", idx)
			f.locals = append(f.locals, l)
			stmts = append(stmts, ast.ExprS(ast.Set(ast.Id(l), ast.Num("5"))))
			assigned = append(assigned, l)
		case 8: // mutate an array parameter's element (shared) -- element store only
			if len(f.params) > 0 {
				p := f.params[0]
				stmts = append(stmts, ast.If(ast.Is(ast.Id(p), "array"), ast.Block(ast.ExprS(ast.Set(ast.Idx(ast.Id(p), ast.Num("0")), ast.Str(f.name))))))
				g.labels["array-param-element-store"] = true
			}
		default:
			tr("t")
		}
	}
	if g.n(0, 3, "fallthrough") > 0 {
		stmts = append(stmts, ast.Return(g.valExpr(f, assigned, 1)))
	} else {
		g.labels["falls-off-end"] = true
	}
	return ast.Block(stmts...)
}

func genC08(t *rapid.T) (*DCase, map[string]bool) {
	g := &c08Gen{t: t, labels: map[string]bool{}}
	nf := g.n(1, 4, "nfuns")
	for k := 0; k < nf; k++ {
		f := &c08Fun{name: fmt.Sprintf("f%d", k)}
		ar := g.n(0, 4, "arity")
		for p := 0; p < ar; p++ {
			f.params = append(f.params, fmt.Sprintf("p%d_%d", k, p))
		}
		if ar >= 1 && g.n(0, 3, "rec") == 0 {
			f.recursive = true
		}
		g.funs = append(g.funs, f)
	}
	var items []*ast.Node
	bodies := make([]*ast.Node, nf)
	for k := nf - 1; k >= 0; k-- {
		bodies[k] = g.funBody(k)
	}
	for k, f := range g.funs {
		items = append(items, ast.Func(f.name, f.params, bodies[k]))
	}
	// ev / od: mutual recursion; each activation has its own parameters (tag is
	// extended on the way down and must come back unchanged in the caller)
	mut := func(name, other, base string) *ast.Node {
		return ast.Func(name, []string{"mn", "tag"}, ast.Block(
			ast.If(ast.Bin("<=", ast.Id("mn"), ast.Num("0")), ast.Block(ast.Return(ast.Bin("+", ast.Id("tag"), ast.Str(base))))),
			// (no local here: a nested activation would reach it through dynamic scope)
			ast.Return(ast.Bin("+", ast.Bin("+", ast.Call(ast.Id(other), ast.Bin("-", ast.Id("mn"), ast.Num("1")), ast.Bin("+", ast.Id("tag"), ast.Str(name[:1]))), ast.Str("<")), ast.Id("tag"))),
		))
	}
	items = append(items, mut("ev", "od", ":even"), mut("od", "ev", ":odd"))
	// the caller
	set := func(n string, v *ast.Node) *ast.Node { return ast.ExprS(ast.Set(ast.Id(n), v)) }
	stmts := []*ast.Node{set("g1", ast.Num("1")), set("g2", ast.Str("s")), set("arr", ast.Arr(ast.Num("1"), ast.Num("2"), ast.Num("3"))), set("sc", ast.Num("7")), set("ob", ast.Obj(ast.KV("k", ast.Num("1"))))}
	argSrc := func() *ast.Node {
		// besides plain values: arguments that change a variable an earlier argument
		// named (the earlier parameter keeps the value it was given), and reads of places
		// that do not exist (the callee may reassign the parameter; nothing is created)
		return rapid.SampledFrom([]*ast.Node{ast.Num("1"), ast.Num("2"), ast.Str("a"), ast.Id("sc"), ast.Id("sc"), ast.Id("arr"), ast.Id("g1"), ast.Null(), ast.True(),
			ast.Post("++", ast.Id("sc")), ast.Pre("++", ast.Id("sc")), ast.Set(ast.Id("sc"), ast.Bin("+", ast.Id("sc"), ast.Num("10"))),
			ast.Mem(ast.Id("ob"), "nokey"), ast.Idx(ast.Id("arr"), ast.Num("7")), ast.Mem(ast.Id("ob"), "k")}).Draw(t, "arg").Clone()
	}
	probe := func() {
		args := []*ast.Node{ast.Str("P"), ast.Id("g1"), ast.Id("g2"), ast.Id("sc"), ast.Id("arr"), ast.Id("ob")}
		stmts = append(stmts, ast.Print(args...))
		// every name any callee touched must be invisible here
		if g.b("probe") {
			var us []*ast.Node
			us = append(us, ast.Str("U"))
			for _, f := range g.funs {
				for _, p := range f.params {
					us = append(us, ast.Is(ast.Id(p), "unknown"))
				}
				for _, l := range f.locals {
					us = append(us, ast.Is(ast.Id(l), "unknown"))
				}
			}
			if len(us) > 1 {
				stmts = append(stmts, ast.Print(us...))
				g.labels["probes-callee-names"] = true
			}
		}
	}
	if g.b("shadowing") {
		// parameters named like globals, used and assigned inside match case bodies of the
		// callee: the parameter is what the case body sees, and the global keeps its value
		items = append(items, ast.Func("shadow", []string{"g1", "sc"}, ast.Block(
			ast.Print(ast.Str("shadow:in"), ast.Id("g1"), ast.Id("sc")),
			ast.ExprS(ast.Set(ast.Id("shx"), ast.Match(ast.Id("g1"), ast.Case(ast.Arr(ast.Id("g1"), ast.Id("sc"), ast.Id("shk")), ast.Id("shk"))))),
			ast.ExprS(ast.Match(ast.Id("sc"), ast.Case(ast.Block(
				ast.ExprS(ast.Set(ast.Id("g1"), ast.Str("changed-in-case"))),
				ast.ExprS(ast.Set(ast.Id("sc"), ast.Bin("+", ast.Id("sc"), ast.Id("shk")))),
				ast.ExprS(ast.Match(ast.Num("1"), ast.Case(ast.Block(ast.ExprS(ast.Set(ast.Id("sc"), ast.Bin("+", ast.Id("sc"), ast.Num("1000"))))), ast.Id("shj")))),
			), ast.Id("shk")))),
			ast.Print(ast.Str("shadow:out"), ast.Id("g1"), ast.Id("sc"), ast.Id("shx")),
			ast.Return(ast.Id("g1")))))
		stmts = append(stmts, set("rsh", ast.Call(ast.Id("shadow"), ast.Str("param"), ast.Num("5"))), ast.Print(ast.Str("RSH"), ast.Id("rsh")))
		probe()
		g.labels["parameter-shadows-global-in-case-body"] = true
	}
	if g.b("sitereuse") {
		// a call site with two arguments whose later argument recurses through the very same
		// site, used again after a first complete recursion: every activation binds its own values
		items = append(items,
			ast.Func("add2", []string{"aa", "ab"}, ast.Block(ast.Return(ast.Bin("+", ast.Id("aa"), ast.Id("ab"))))),
			ast.Func("rsum", []string{"rn"}, ast.Block(ast.If(ast.Bin("<=", ast.Id("rn"), ast.Num("0")), ast.Block(ast.Return(ast.Num("0")))),
				ast.Return(ast.Call(ast.Id("add2"), ast.Id("rn"), ast.Call(ast.Id("rsum"), ast.Bin("-", ast.Id("rn"), ast.Num("1"))))))),
			ast.Func("idf", []string{"iv"}, ast.Block(ast.Return(ast.Id("iv")))),
			ast.Func("rdeep", []string{"dn"}, ast.Block(ast.If(ast.Bin("<=", ast.Id("dn"), ast.Num("0")), ast.Block(ast.Return(ast.Num("0")))),
				ast.Return(ast.Bin("+", ast.Call(ast.Id("idf"), ast.Call(ast.Id("rdeep"), ast.Bin("-", ast.Id("dn"), ast.Num("1")))), ast.Num("1"))))))
		for _, n := range []int{g.n(2, 5, "rs1"), g.n(2, 5, "rs2"), g.n(2, 6, "rs3")} {
			stmts = append(stmts, ast.Print(ast.Str("RS"), ast.Call(ast.Id("rsum"), ast.Num(fmt.Sprint(n)))))
		}
		rdepth := fmt.Sprint(g.n(2, 60, "rdepth")) // (depths near the limit: the fixed cases of TestC08)
		// the recursive call stands in the argument of another call: only genuinely nested
		// calls count towards the limit, so a depth of 3000 is fine
		stmts = append(stmts, ast.Print(ast.Str("RD"), ast.Call(ast.Id("rdeep"), ast.Num(rdepth))))
		g.labels["call-site-reused-by-its-own-argument"] = true
	}
	ncalls := g.n(1, 4, "ncalls")
	for k := 0; k < ncalls; k++ {
		r := fmt.Sprintf("r%d", k)
		call := g.callExpr(0, argSrc)
		switch g.n(0, 8, "position") {
		case 0: // operand
			stmts = append(stmts, set(r, ast.Bin("+", call, ast.Num("100"))))
		case 1: // argument of another call
			stmts = append(stmts, set(r, g.callExpr(0, func() *ast.Node { return call })))
			g.labels["call-as-argument"] = true
		case 2: // index
			stmts = append(stmts, set(r, ast.Idx(ast.Arr(ast.Str("zero"), ast.Str("one"), ast.Str("two")), ast.Bin("%", call, ast.Num("3")))))
			g.labels["call-in-index"] = true
		case 3: // condition
			stmts = append(stmts, ast.IfElse(ast.Bin(">", call, ast.Num("2")), ast.Block(set(r, ast.Str("gt"))), ast.Block(set(r, ast.Str("le")))))
			g.labels["call-in-condition"] = true
		case 4: // match subject and body
			stmts = append(stmts, set(r, ast.Match(call, ast.Case(ast.Str("zero"), ast.Num("0")), ast.Case(ast.Bin("+", ast.Id("mv"), g.callExpr(0, argSrc)), ast.Id("mv")))))
			stmts = append(stmts, ast.Print(ast.Str("M"), ast.Is(ast.Id("mv"), "unknown")))
			g.labels["call-in-match"] = true
		case 6: // mutual recursion over two functions, with a local in each activation
			stmts = append(stmts, set(r, ast.Call(ast.Id("ev"), ast.Num(fmt.Sprint(g.n(0, 7, "mutdepth"))), ast.Str("t"))))
			g.labels["mutual-recursion"] = true
		case 5: // short-circuit right operand (must not be called when not needed)
			stmts = append(stmts, set(r, ast.Bin(rapid.SampledFrom([]string{"&&", "||"}).Draw(t, "sc"), rapid.SampledFrom([]*ast.Node{ast.True(), ast.False()}).Draw(t, "scl").Clone(), call)))
			g.labels["call-short-circuit"] = true
		case 8: // arguments of a print statement: the callee's own prints come first, whole lines
			stmts = append(stmts, ast.Print(ast.Str("PA"), call, ast.Str("|"), g.callExpr(0, argSrc), ast.Arr(g.callExpr(0, argSrc))), set(r, ast.Num("0")))
			g.labels["call-in-print-arguments"] = true
		default:
			stmts = append(stmts, set(r, call))
		}
		stmts = append(stmts, ast.Print(ast.Str("R"), ast.Id(r)))
		probe()
	}
	kind := "BEGIN"
	c := &DCase{}
	if g.b("inpattern") {
		kind = "pattern"
		c.Files = []DFile{{Name: "in", Docs: []string{"[1,2]"}}}
	}
	items = append(items, ast.Rule(kind, nil, ast.Block(stmts...)))
	c.Prog = ast.Prog(items...)
	return c, g.labels
}

// ---- histories ------------------------------------------------------------------------------

type C08Hist struct {
	Construct int  `json:"construct"`
	N         int  `json:"n"`
	InLoop    bool `json:"in_loop"` // N loop iterations inside one rule instead of N elements
}

var c08Constructs = []string{
	"plain call", "match with expression body", "match with block body", "return from inside a match block",
	"next inside a function", "match in a loop with break/continue in block bodies", "call whose argument is a match",
	"match with array pattern bindings",
	"next (in a called function) leaving an expression-bodied match case", "break / continue (in a nested block-bodied match) leaving an expression-bodied match case",
}

const c08Prelude = `function rec(n) { if (n <= 0) { return 0 }
return 1 + rec(n - 1) }
function f(x) { y = x + 1
return y }
function g(x) { match (x) { y => { return y * 2 } }
return 0 }
function h(x) { print "h", x
next }
`

// c08Element returns the statements executed per element / iteration on
// subject s. In loop mode the observation is a counter instead of a print.
func c08Element(construct int, s string, loop bool) string {
	obs := func(probes string) string {
		if loop {
			return "cnt++\nlast = r\n"
		}
		return "print \"e\", r" + probes + "\n"
	}
	switch construct {
	case 0:
		return "r = f(" + s + ")\n" + obs("")
	case 1:
		return "r = match (" + s + ") { x => x + 1 }\n" + obs("")
	case 2:
		return "r = 0\nmatch (" + s + ") { x => { r = x + 2 } }\n" + obs("")
	case 3:
		return "r = g(" + s + ")\n" + obs("")
	case 4:
		return "h(" + s + ")\nprint \"unreachable\"\n"
	case 5:
		return "for (i = 0; i < 3; i++) { r = match (i) { 0 => { continue }, 2 => { break }, k => k + " + s + " }\n" + obs("") + "}\n"
	case 6:
		return "r = f(match (" + s + ") { x => g(x) })\n" + obs("")
	case 8:
		return "r = match (" + s + ") { hx => h(hx) }\nprint \"unreachable\"\n"
	case 9:
		return "for (i = 0; i < 3; i++) { r = match (i) { ko => match (ko) { 0 => { continue }, 2 => { break }, ki => ki + " + s + " } }\n" + obs("") + "}\n"
	default:
		return "r = match ([" + s + ", 2]) { [1, b] => b, [a, b] => a + b }\n" + obs("")
	}
}

func c08HistProgram(h *C08Hist) (prog string, input string, perElement int) {
	if h.InLoop && (h.Construct == 4 || h.Construct == 8) {
		// `next` ends the rule, so there is no loop form of this construct
		h.InLoop = false
	}
	if h.InLoop {
		prog = c08Prelude + fmt.Sprintf("BEGIN { for (it = 0; it < %d; it++) {\n%s}\nprint \"cnt\", cnt, last\nprint \"end\", rec(1000)\n}\n", h.N, c08Element(h.Construct, "7", true))
		return prog, "", 0
	}
	prog = c08Prelude + "{\n" + c08Element(h.Construct, "$", false) + "}\nEND { print \"end\", rec(1000) }\n"
	var sb strings.Builder
	sb.WriteByte('[')
	for k := 0; k < h.N; k++ {
		if k > 0 {
			sb.WriteByte(',')
		}
		sb.WriteByte('7')
	}
	sb.WriteByte(']')
	return prog, sb.String(), 1
}

// c08HistCheck: the output for N elements is the one-element output N times,
// the run succeeds, and a recursion of depth 1000 still works afterwards.
func c08HistCheck(h *C08Hist) string {
	hh := *h
	prog, input, _ := c08HistProgram(&hh)
	var files []run.InFile
	if !hh.InLoop {
		files = []run.InFile{{Name: "in", Data: []byte(input)}}
	}
	o := run.InProc(prog, files, nil, run.Opts{Budget: 400_000_000})
	if hh.InLoop {
		one := hh
		one.N = 1
		p1, _, _ := c08HistProgram(&one)
		o1 := run.InProc(p1, nil, nil, run.Opts{Budget: 400_000_000})
		if o1.Class != "ok" {
			return fmt.Sprintf("one iteration already fails: %s %s", o1.Class, o1.Msg)
		}
		if o.Class != "ok" {
			return fmt.Sprintf("%d iterations of %q inside one rule: outcome %s (%s); one iteration succeeds", hh.N, c08Constructs[hh.Construct], o.Class, o.Msg)
		}
		// the counter scales, everything else is identical
		l1 := strings.SplitN(string(o1.Stdout), "\n", 2)
		ln := strings.SplitN(string(o.Stdout), "\n", 2)
		var c1, cn int
		var last1, lastn string
		fmt.Sscanf(l1[0], "cnt %d %s", &c1, &last1)
		fmt.Sscanf(ln[0], "cnt %d %s", &cn, &lastn)
		if cn != c1*hh.N || last1 != lastn || len(l1) < 2 || len(ln) < 2 || l1[1] != ln[1] {
			return fmt.Sprintf("%d iterations of %q: output %q; one iteration gives %q", hh.N, c08Constructs[hh.Construct], clip(string(o.Stdout)), clip(string(o1.Stdout)))
		}
		return ""
	}
	// reference for one element comes from refjq
	one := hh
	one.N = 1
	p1, in1, _ := c08HistProgram(&one)
	o1 := run.InProc(p1, []run.InFile{{Name: "in", Data: []byte(in1)}}, nil, run.Opts{Budget: 400_000_000})
	if o1.Class != "ok" {
		return fmt.Sprintf("one element already fails: %s %s", o1.Class, o1.Msg)
	}
	if !bytes.HasSuffix(o1.Stdout, []byte("end 1000\n")) {
		return fmt.Sprintf("one element: END output missing: %q", clip(string(o1.Stdout)))
	}
	per := o1.Stdout[:len(o1.Stdout)-len("end 1000\n")]
	want := append(bytes.Repeat(per, hh.N), []byte("end 1000\n")...)
	if o.Class != "ok" {
		return fmt.Sprintf("%d elements through %q: outcome %s (%s) after %d output bytes; a single element succeeds", hh.N, c08Constructs[hh.Construct], o.Class, o.Msg, len(o.Stdout))
	}
	if !bytes.Equal(o.Stdout, want) {
		return fmt.Sprintf("%d elements through %q: output is not the one-element output repeated\n%s", hh.N, c08Constructs[hh.Construct], outDiff(o.Stdout, want))
	}
	return ""
}

func TestC08(t *testing.T) {
	rec := start(t, "C08", "exploration",
		"(a) programs with 1-4 user functions of arity 0-4 (parameters reassigned, locals created, globals assigned, nested calls, controlled recursion, returns from loops and match blocks, match bindings), called from every expression position with argument counts below / at / above arity; after every call the caller prints the globals and `is unknown` of every name a callee touched; expected output from refjq (DESIGN.md 4.2). (b) histories: a stateless per-element construct (call, match with expression body, match with block body, return inside a match block, next inside a function, break/continue in match blocks, nested) over N in {1,2,100,4095,4096,4097,5000,20000,65535,65537,70000} elements, or N iterations inside one rule, followed by a recursion of depth 1000: the output must be the one-element output N times. Non-trivial: (a) callee names probed, argc != arity, or recursion; (b) N > 4096. distinct = distinct program+input.")
	defer rec.Finish()
	rec.Assume("refjq's frame model (DESIGN.md 4.2); reads of names that exist only in a caller's frame are unspecified and not generated")
	rec.Replayer("calls", replayDiff(false))
	rec.Replayer("history", func(raw json.RawMessage) error {
		var h C08Hist
		if err := json.Unmarshal(raw, &h); err != nil {
			return err
		}
		if msg := c08HistCheck(&h); msg != "" {
			return fmt.Errorf("%s", msg)
		}
		return nil
	})
	if rec.ReplayOnly() {
		return
	}
	rec.ReplayTier()

	// (b) histories: the stated grid, completely
	shard, nshards := ev.Shard()
	count := 0
	for construct := range c08Constructs {
		for _, n := range []int{1, 2, 100, 4095, 4096, 4097, 5000, 20000, 65535, 65537, 70000} {
			for _, inLoop := range []bool{false, true} {
				count++
				if count%nshards != shard || rec.ViolationCount() >= 6 {
					continue
				}
				h := &C08Hist{Construct: construct, N: n, InLoop: inLoop}
				msg := c08HistCheck(h)
				rec.Case(fmt.Sprintf("hist %d %d %v", construct, n, inLoop), n > 4096, "history", "history:"+c08Constructs[construct])
				rec.Sample(func() interface{} {
					p, _, _ := c08HistProgram(&C08Hist{Construct: construct, N: n, InLoop: inLoop})
					return map[string]interface{}{"history": c08Constructs[construct], "n": n, "in_loop": inLoop, "program": p}
				})
				if msg != "" {
					p, _, _ := c08HistProgram(&C08Hist{Construct: construct, N: n, InLoop: inLoop})
					rec.Violation("history", h, p, msg)
				}
			}
		}
	}
	rec.Exhaustive("(b) 8 constructs x N in {1,2,100,4095,4096,4097,5000,20000,65535,65537,70000} x {elements, loop iterations}")

	// (c) only genuinely nested calls count towards the limit: a recursion whose recursive
	// call stands in the argument of another call (which is entered only after the
	// argument has returned), or runs beside completed sibling calls, reaches the same
	// depth as the plain one (direct oracle: the value)
	if shard == 0 {
		type deepCase struct {
			Prog string `json:"prog"`
			N    int    `json:"n"`
		}
		shapes := []string{
			"function idf(v) { return v }\nfunction rdeep(n) { if (n <= 0) { return 0 }\nreturn idf(rdeep(n - 1)) + 1 }\nBEGIN { print rdeep(%d) }",
			"function idf(v) { return v }\nfunction rdeep(n) { if (n <= 0) { return 0 }\nx = idf(n) + idf(idf(n))\nreturn 1 + rdeep(idf(n) - 1) }\nBEGIN { print rdeep(%d) }",
			"function add2(a, b) { return a + b }\nfunction rsum(n) { if (n <= 0) { return 0 }\nreturn add2(1, rsum(n - 1)) }\nBEGIN { print rsum(3), rsum(%d), rsum(4) }",
		}
		for si, shape := range shapes {
			for _, n := range []int{10, 1000, 2040, 2050, 3000, 4000} {
				src := fmt.Sprintf(shape, n)
				o := run.InProc(src, nil, nil, run.Opts{Budget: 50_000_000})
				want := fmt.Sprintf("%d\n", n)
				if si == 2 {
					want = fmt.Sprintf("3 %d 4\n", n)
				}
				rec.Case(fmt.Sprintf("deep-arg %d %d", si, n), n > 2048, "recursion-through-an-argument")
				if o.Class != "ok" || string(o.Stdout) != want {
					rec.Violation("deep-argument", deepCase{src, n}, src, fmt.Sprintf("recursion of depth %d through an argument of another call: outcome %s (%s), output %q, expected %q", n, o.Class, o.Msg, clip(string(o.Stdout)), want))
				}
			}
		}
	}

	// the one-element unit of each construct against refjq (text programs are
	// parsed by nobody here: the unit is rebuilt as an AST in genC08's style, so
	// only the AST-based random part uses refjq)
	check(rec, "calls-random", scale(8000, 4000000), func(rt *rapid.T) {
		c, labels := genC08(rt)
		var ls []string
		for l := range labels {
			ls = append(ls, l)
		}
		runDiff(rec, rt, "calls", c, false, func(d *diffResult) bool {
			return labels["probes-callee-names"] || labels["argc<arity"] || labels["argc>arity"] || d.Ref.Events["call-depth>=3"] > 0
		}, ls...)
	})

	// random histories with random N (thorough adds more)
	flagSet("rapid.shrinktime", "5s")
	check(rec, "history-random", scale(60, 1500), func(rt *rapid.T) {
		h := &C08Hist{
			Construct: rapid.IntRange(0, len(c08Constructs)-1).Draw(rt, "construct"),
			N:         rapid.SampledFrom([]int{3, 50, 1000, 4094, 4096, 4098, 6000, 9000, 12000}).Draw(rt, "n"),
			InLoop:    rapid.Bool().Draw(rt, "inloop"),
		}
		msg := c08HistCheck(h)
		rec.Case(fmt.Sprintf("hist %d %d %v", h.Construct, h.N, h.InLoop), h.N > 4096, "history", "history:"+c08Constructs[h.Construct])
		if msg != "" {
			p, _, _ := c08HistProgram(&C08Hist{Construct: h.Construct, N: h.N, InLoop: h.InLoop})
			rec.Pending("history", h, p, msg)
			rt.Fatalf("%s", msg)
		}
	})
}
