package props

import (
	"bytes"
	"encoding/json"
	"fmt"
	"strings"
	"testing"
	"verif/harness/run"

	"verif/harness/ast"
	"verif/harness/gen"
	"verif/harness/jsonx"

	"pgregory.net/rapid"
)

// C07 — control flow executes statements in exactly the documented order, at
// any nesting (DESIGN.md 4.4; refjq trace equality, object key order by acceptor).

func c07Doc(t *rapid.T) *jsonx.Val {
	n := rapid.IntRange(1, 3).Draw(t, "nelems")
	root := jsonx.VArr()
	scalar := gen.DocOpts{SafeStr: true, SmallNums: true}
	for k := 0; k < n; k++ {
		items := jsonx.VArr()
		for j, m := 0, rapid.IntRange(0, 3).Draw(t, "nitems"); j < m; j++ {
			items.Items = append(items.Items, gen.JSONScalar(scalar).Draw(t, "item"))
		}
		o := jsonx.VObj()
		keys := []string{"b", "a", "c"}
		if rapid.IntRange(0, 3).Draw(t, "numerickeys") == 0 {
			// different keys that read as the same number: still one deterministic order
			keys = []string{"1", "1.0", "01"}
		}
		for j, m := 0, rapid.IntRange(0, 3).Draw(t, "nkeys"); j < m; j++ {
			o.Members = append(o.Members, jsonx.Member{Key: keys[j], Val: jsonx.VNum(float64(j))})
		}
		el := jsonx.VObj(
			jsonx.Member{Key: "n", Val: jsonx.VNum(float64(rapid.IntRange(0, 3).Draw(t, "n")))},
			jsonx.Member{Key: "m", Val: jsonx.VNum(float64(rapid.IntRange(0, 2).Draw(t, "m")))},
			jsonx.Member{Key: "items", Val: items},
			jsonx.Member{Key: "o", Val: o},
			jsonx.Member{Key: "name", Val: jsonx.VStr(rapid.SampledFrom([]string{"", "ab", "héllo", "日本", "x"}).Draw(t, "name"))},
		)
		root.Items = append(root.Items, el)
	}
	return root
}

func genC07(t *rapid.T, maxDepth int) (*DCase, map[string]bool) {
	g := gen.NewSG(t)
	g.MaxDepth = maxDepth
	g.DNums = []string{"n", "m"}
	g.DArrs = []string{"items"}
	g.DObjs = []string{"o"}
	g.DStrs = []string{"name"}
	g.AllowNext, g.AllowExit = true, true
	items := []*ast.Node{
		ast.Func("tick", []string{"name", "x"}, ast.Block(
			ast.Print(ast.Str("post"), ast.Id("name"), ast.Id("x")),
			ast.Return(ast.Bin("+", ast.Id("x"), ast.Num("1"))))),
	}
	g.Funs = []gen.Fun{{Name: "tick", Arity: 2}}
	if rapid.Bool().Draw(t, "stoppers") {
		for _, st := range []struct{ name, kw string }{{"tickx", "exit"}, {"tickn", "next"}} {
			kw := ast.Exit()
			if st.kw == "next" {
				kw = ast.Next()
			}
			items = append(items, ast.Func(st.name, []string{"name", "x", "k"}, ast.Block(
				ast.Print(ast.Str("post-"+st.kw), ast.Id("name"), ast.Id("x")),
				ast.If(ast.Bin(">=", ast.Id("x"), ast.Id("k")), ast.Block(kw)),
				ast.Return(ast.Bin("+", ast.Id("x"), ast.Num("1"))))))
			g.Funs = append(g.Funs, gen.Fun{Name: st.name, Arity: 3})
		}
		for _, st := range []struct{ name, kw string }{{"iterx", "exit"}, {"itern", "next"}} {
			kw := ast.Exit()
			if st.kw == "next" {
				kw = ast.Next()
			}
			items = append(items, ast.Func(st.name, []string{"name", "it", "stop"}, ast.Block(
				ast.Print(ast.Str("iter-"+st.kw), ast.Id("name")),
				ast.If(ast.Id("stop"), ast.Block(kw)),
				ast.Return(ast.Id("it")))))
			g.Funs = append(g.Funs, gen.Fun{Name: st.name, Arity: 3})
		}
	}
	nf := rapid.IntRange(0, 2).Draw(t, "nfuncs")
	var funs []gen.Fun
	for k := 0; k < nf; k++ {
		name := fmt.Sprintf("g%d", k)
		params := []string{"p"}
		if rapid.Bool().Draw(t, "twoparams") {
			params = append(params, "q")
		}
		body := g.FuncBody(params, rapid.IntRange(1, 4).Draw(t, "fbody"))
		items = append(items, ast.Func(name, params, body))
		funs = append(funs, gen.Fun{Name: name, Arity: len(params)})
	}
	g.Funs = append(g.Funs, funs...)
	nr := rapid.IntRange(1, 2).Draw(t, "nrules")
	for k := 0; k < nr; k++ {
		items = append(items, ast.Rule("pattern", nil, g.RuleBody(rapid.IntRange(1, 5).Draw(t, "rbody"))))
	}
	items = append(items, ast.Rule("ENDFILE", nil, ast.Block(ast.Print(ast.Str("endfile")))))
	if rapid.IntRange(0, 3).Draw(t, "exitinend") == 0 {
		// exit inside loops in an END rule that is not the last one: no further rule runs
		items = append(items, ast.Rule("END", nil, ast.Block(ast.Print(ast.Str("end-first")),
			ast.ForIn("ev", "", ast.Arr(ast.Num("1"), ast.Num("2")), ast.Block(ast.If(ast.Bin("==", ast.Id("ev"), ast.Num(fmt.Sprint(rapid.IntRange(1, 3).Draw(t, "exitat")))), ast.Block(ast.Exit())), ast.Print(ast.Str("end-loop"), ast.Id("ev")))),
			ast.Print(ast.Str("end-first-done")))))
		g.Labels["exit-in-loop"] = true
	}
	items = append(items, ast.Rule("END", nil, ast.Block(ast.Print(ast.Str("end")))))
	docs := []string{gen.Compact(c07Doc(t))}
	if rapid.IntRange(0, 2).Draw(t, "moreroots") == 0 {
		// further values whose root is not an array: one element on its own, a number, a string
		// (next and exit leave the rules for that value; its ENDFILE rules still run after next)
		for k, n := 0, rapid.IntRange(1, 3).Draw(t, "nmore"); k < n; k++ {
			switch rapid.IntRange(0, 2).Draw(t, "rootkind") {
			case 0:
				docs = append(docs, gen.Compact(c07Doc(t).Items[0]))
			case 1:
				docs = append(docs, fmt.Sprint(rapid.IntRange(0, 3).Draw(t, "numroot")))
			default:
				docs = append(docs, `"ab"`)
			}
		}
		g.Labels["values-with-non-array-roots"] = true
	}
	c := &DCase{Prog: ast.Prog(items...), Files: []DFile{{Name: "in", Docs: docs}}}
	return c, g.Labels
}

func c07Nontrivial(labels map[string]bool, d *diffResult) bool {
	for _, l := range []string{"break-in-nested-loop", "continue-in-nested-loop", "return-from-loop", "dangling-else", "next-in-loop", "exit-in-loop", "next-in-function", "exit-in-function", "for-post-stops-run-or-rule", "for-cond-stops-run-or-rule", "for-in-iterable-stops-run-or-rule"} {
		if labels[l] {
			return true
		}
	}
	return d.Ref.Events["forin-obj-multi"] > 0 || d.Ref.Events["forin-str-multibyte"] > 0
}

func TestC07(t *testing.T) {
	rec := start(t, "C07", "exploration",
		"structured programs: nesting (depth <= 4, 6 thorough) of if / if-else / else-if chains / dangling else / while / three-clause for (post-expression traced through a function; post-expression or condition calling a function that executes next or exit at a given step) / for-in over arrays, objects and strings (empty and multi-byte included) / blocks, with break, continue, return (from loops and ifs), next and exit at arbitrary positions, in pattern rules and in functions; conditions and bounds read a generated document; every statement position prints a trace line with the loop variables. Expected trace from refjq (DESIGN.md 4.4). Non-trivial: break/continue in a nested loop, return from inside a loop, next/exit inside a loop or function, a dangling else, for-in over an object with >= 2 keys or over a multi-byte string. distinct = distinct (program, input).")
	defer rec.Finish()
	rec.Assume("refjq's statement semantics are the documented ones (DESIGN.md 4.4); object key order is accepted in any order, each key exactly once")
	rec.Replayer("trace", func(raw json.RawMessage) error {
		if err := replayDiff(false)(raw); err != nil {
			return err
		}
		var c DCase
		if err := json.Unmarshal(raw, &c); err != nil {
			return err
		}
		// (object key order: the same trace every time)
		src := c.Source()
		first := run.InProc(src, c.inFiles(), nil, run.Opts{Budget: implBudget})
		for rep := 0; rep < 12; rep++ {
			if o := run.InProc(src, c.inFiles(), nil, run.Opts{Budget: implBudget}); !bytes.Equal(o.Stdout, first.Stdout) {
				return fmt.Errorf("two runs of the same program over the same input print different traces\n%s\n%s", clip(string(first.Stdout)), clip(string(o.Stdout)))
			}
		}
		return nil
	})
	if rec.ReplayOnly() {
		return
	}
	rec.ReplayTier()
	depth := 4
	if evThorough() {
		depth = 6
	}
	check(rec, "trace-random", scale(15000, 6000000), func(rt *rapid.T) {
		c, labels := genC07(rt, depth)
		var ls []string
		for l := range labels {
			ls = append(ls, l)
		}
		d := runDiff(rec, rt, "trace", c, false, func(d *diffResult) bool { return c07Nontrivial(labels, d) }, ls...)
		// the order of an object's keys is the same order every time the program runs
		if d.Verdict == "pass" && strings.Contains(c.Files[0].Docs[0], `"1.0"`) {
			for rep := 0; rep < 4; rep++ {
				o := run.InProc(d.Src, c.inFiles(), nil, run.Opts{Budget: implBudget})
				if !bytes.Equal(o.Stdout, d.Impl.Stdout) {
					rec.Pending("trace", c, d.Src, "two runs of the same program over the same input print different traces (object key order)")
					rt.Fatalf("two runs of the same program differ:\n%s\n%s", clip(string(d.Impl.Stdout)), clip(string(o.Stdout)))
				}
			}
		}
	})
}
