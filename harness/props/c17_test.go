package props

import (
	"unicode/utf8"
	"bytes"
	"encoding/json"
	"fmt"
	"math"
	"regexp"
	"strings"
	"testing"

	"verif/harness/ast"
	"verif/harness/ev"
	"verif/harness/gen"
	"verif/harness/jsonx"
	"verif/harness/ref"
	"verif/harness/run"

	"pgregory.net/rapid"
)

// C17 — print renders every value in one well-defined, terminating,
// re-readable format (DESIGN.md 4.6).

// ---- numbers: positional decimal that reads back as the identical double -------------------

type C17Num struct {
	Bits uint64 `json:"bits"`
	Via  string `json:"via"` // "json" | "literal" | "arith"
}

var positional = regexp.MustCompile(`^-?[0-9]+(\.[0-9]+)?$`)

func c17NumProgram(c *C17Num) (prog string, input string) {
	x := math.Float64frombits(c.Bits)
	switch c.Via {
	case "json":
		return "{ print $ }", gen.NumText(x)
	case "literal":
		return "BEGIN { print " + ast.Source(gen.NumNode(x)) + " }", ""
	default:
		// through arithmetic: x = (x/2) + (x/2) is exact for every finite double
		// except where x/2 underflows; use x * 1 + 0 instead (exact always)
		return "BEGIN { v = " + ast.Source(gen.NumNode(x)) + "; print v * 1 + 0, 0 - v }", ""
	}
}

func c17NumCheck(c *C17Num) string {
	x := math.Float64frombits(c.Bits)
	prog, input := c17NumProgram(c)
	var files []run.InFile
	if c.Via == "json" {
		files = []run.InFile{{Name: "in", Data: []byte(input)}}
	}
	o := run.InProc(prog, files, nil, run.Opts{Budget: implBudget})
	if o.Class != "ok" {
		return fmt.Sprintf("printing %v (%s): outcome %s %s", x, c.Via, o.Class, o.Msg+o.Panic)
	}
	line := strings.TrimSuffix(string(o.Stdout), "\n")
	fields := []string{line}
	want := []float64{x}
	if c.Via == "arith" {
		fields = strings.Split(line, " ")
		want = []float64{x*1 + 0, 0 - x}
		if len(fields) != 2 {
			return fmt.Sprintf("printing two numbers gave %q", line)
		}
	}
	for k, f := range fields {
		if !positional.MatchString(f) {
			return fmt.Sprintf("%v is printed as %q: not plain positional decimal", want[k], f)
		}
		back, ok := jsonx.NearestDouble(f)
		if !ok {
			return fmt.Sprintf("%v is printed as %q, which does not read back", want[k], f)
		}
		if math.Float64bits(back) != math.Float64bits(want[k]) {
			return fmt.Sprintf("%v (bits %016x) is printed as %q, which reads back as %v (bits %016x)", want[k], math.Float64bits(want[k]), f, back, math.Float64bits(back))
		}
	}
	return ""
}

func c17NumNontrivial(x float64) bool {
	a := math.Abs(x)
	if x == 0 {
		return math.Signbit(x)
	}
	if a < 1e-5 || a >= 1e15 {
		return true
	}
	return len(strings.Trim(strings.Replace(fmt.Sprintf("%.17g", a), ".", "", 1), "0")) >= 16
}

// ---- values: nested containers, sharing, cycles -------------------------------------------------

type c17Node struct {
	kind  string // "scalar" | "arr" | "obj" | "ref"
	lit   *ast.Node
	kids  []*c17Node
	keys  []string
	ref   int // for "ref": index of the container node referred to
	index int
}

type c17Gen struct {
	t       *rapid.T
	labels  map[string]bool
	nodes   []*c17Node // container nodes in creation order
	safeStr bool
	utf8    bool // raw strings restricted to valid UTF-8
}

func (g *c17Gen) n(lo, hi int, l string) int { return rapid.IntRange(lo, hi).Draw(g.t, l) }

func (g *c17Gen) scalar() *c17Node {
	var l *ast.Node
	switch g.n(0, 6, "sk") {
	case 0, 1:
		l = gen.NumExpr().Draw(g.t, "num")
	case 2, 3:
		if g.safeStr {
			l = ast.Str(rapid.SampledFrom([]string{"", "a", "x y", "é", "日本", "0", "true", "a,b", "k: v", "[1]"}).Draw(g.t, "safe"))
		} else if g.utf8 {
			l = ast.Str(rapid.StringOfN(rapid.RuneFrom([]rune("ab </>&\u2028é日😀\x01\x1f\t,:{}[]")), 0, 8, -1).Draw(g.t, "utf8raw"))
		} else {
			l = ast.Str(c17RawString().Draw(g.t, "raw"))
		}
	case 4:
		l = ast.True()
	case 5:
		l = ast.False()
	default:
		l = ast.Null()
	}
	return &c17Node{kind: "scalar", lit: l}
}

// c17RawString: string literal contents over all bytes except the double quote
// and the backslash (those are C13's subject), including invalid UTF-8.
func c17RawString() *rapid.Generator[string] {
	return rapid.Custom(func(t *rapid.T) string {
		n := rapid.IntRange(0, 12).Draw(t, "len")
		b := make([]byte, 0, n)
		for k := 0; k < n; k++ {
			c := byte(rapid.IntRange(0, 255).Draw(t, "byte"))
			if c == '"' || c == '\\' {
				c = '_'
			}
			b = append(b, c)
		}
		return string(b)
	})
}

var c17Keys = []string{"a", "b", "k", "name", "z9", "_x", "list"}

func (g *c17Gen) tree(depth int, ancestors []int) *c17Node {
	k := g.n(0, 11, "nk")
	if depth <= 0 || k <= 3 {
		return g.scalar()
	}
	if k == 4 && len(g.nodes) > 0 {
		// a reference to a container created earlier: sharing, or a cycle when it is an ancestor
		r := g.n(0, len(g.nodes)-1, "refto")
		isAnc := false
		for _, a := range ancestors {
			if a == r {
				isAnc = true
			}
		}
		if isAnc {
			g.labels["cycle"] = true
		} else {
			g.labels["sharing"] = true
		}
		return &c17Node{kind: "ref", ref: r}
	}
	if k == 5 && len(ancestors) > 0 {
		g.labels["cycle"] = true
		return &c17Node{kind: "ref", ref: ancestors[g.n(0, len(ancestors)-1, "anc")]}
	}
	nd := &c17Node{index: len(g.nodes)}
	if k%2 == 0 {
		nd.kind = "arr"
	} else {
		nd.kind = "obj"
	}
	g.nodes = append(g.nodes, nd)
	n := g.n(0, 3, "nkids")
	if n == 0 {
		g.labels["empty-container"] = true
	}
	anc := append(append([]int{}, ancestors...), nd.index)
	for i := 0; i < n; i++ {
		nd.kids = append(nd.kids, g.tree(depth-1, anc))
		if nd.kind == "obj" {
			nd.keys = append(nd.keys, c17Keys[i])
		}
	}
	if depth <= 1 {
		g.labels["depth>=3"] = true
	}
	return nd
}

func nodeVar(i int) string { return fmt.Sprintf("n%d", i) }

// build emits: every container with placeholders at its final length, then
// every edge as an element / member store (no store changes a length).
func (g *c17Gen) build() []*ast.Node {
	var stmts []*ast.Node
	for _, nd := range g.nodes {
		var init *ast.Node
		if nd.kind == "arr" {
			items := make([]*ast.Node, len(nd.kids))
			for k := range items {
				items[k] = ast.Null()
			}
			init = ast.Arr(items...)
		} else {
			var kvs []*ast.Node
			for _, key := range nd.keys {
				kvs = append(kvs, ast.KV(key, ast.Null()))
			}
			init = ast.Obj(kvs...)
		}
		stmts = append(stmts, ast.ExprS(ast.Set(ast.Id(nodeVar(nd.index)), init)))
	}
	for _, nd := range g.nodes {
		for k, kid := range nd.kids {
			var tgt *ast.Node
			if nd.kind == "arr" {
				tgt = ast.Idx(ast.Id(nodeVar(nd.index)), ast.Num(fmt.Sprint(k)))
			} else {
				tgt = ast.Mem(ast.Id(nodeVar(nd.index)), nd.keys[k])
			}
			var val *ast.Node
			switch kid.kind {
			case "scalar":
				val = kid.lit.Clone()
			case "ref":
				val = ast.Id(nodeVar(kid.ref))
			default:
				val = ast.Id(nodeVar(kid.index))
			}
			stmts = append(stmts, ast.ExprS(ast.Set(tgt, val)))
		}
	}
	return stmts
}

func genC17(t *rapid.T) (*DCase, map[string]bool, bool) {
	g := &c17Gen{t: t, labels: map[string]bool{}, safeStr: rapid.Bool().Draw(t, "safestr")}
	var stmts []*ast.Node
	nprints := g.n(1, 3, "nprints")
	var prints []*ast.Node
	for p := 0; p < nprints; p++ {
		nargs := g.n(0, 4, "nargs")
		if nargs == 0 {
			prints = append(prints, ast.Print())
			g.labels["bare-print"] = true
			continue
		}
		var args []*ast.Node
		for a := 0; a < nargs; a++ {
			root := g.tree(3, nil)
			switch root.kind {
			case "scalar":
				args = append(args, root.lit.Clone())
			case "ref":
				args = append(args, ast.Id(nodeVar(root.ref)))
			default:
				args = append(args, ast.Id(nodeVar(root.index)))
			}
		}
		if g.n(0, 5, "nestedprint") == 0 {
			// one argument is computed by a function that prints a line of its own first
			k := g.n(0, len(args)-1, "nestedwhich")
			args[k] = ast.Call(ast.Id("c17sh"), args[k])
			g.labels["print-inside-print-argument"] = true
		}
		prints = append(prints, ast.Print(args...))
	}
	stmts = append(stmts, g.build()...)
	stmts = append(stmts, prints...)
	if len(g.nodes) >= 2 && g.n(0, 2, "gallery") > 0 {
		// several of the containers side by side in one printed value: a member of a cycle
		// is then reached along paths on which the rest of its cycle is not an ancestor
		var els []*ast.Node
		var kvs []*ast.Node
		for k, n := 0, g.n(2, 5, "ngallery"); k < n; k++ {
			v := ast.Id(nodeVar(g.n(0, len(g.nodes)-1, "gnode")))
			els = append(els, v)
			kvs = append(kvs, ast.KV(c17Keys[k], v.Clone()))
		}
		stmts = append(stmts, ast.Print(ast.Arr(els...)), ast.Print(ast.Obj(kvs...), ast.Arr(els[1].Clone(), els[0].Clone())))
		g.labels["gallery-of-containers"] = true
	}
	if len(g.nodes) >= 1 && g.n(0, 3, "latecycle") == 0 {
		// a container that was printed while it had no cycle gets one afterwards (a reference
		// back to itself or to another container, stored into it or below it) and is printed again
		x := g.nodes[g.n(0, len(g.nodes)-1, "latex")]
		y := g.nodes[g.n(0, len(g.nodes)-1, "latey")]
		xv, yv := ast.Id(nodeVar(x.index)), ast.Id(nodeVar(y.index))
		stmts = append(stmts, ast.Print(ast.Str("BEFORE"), xv.Clone(), yv.Clone()))
		if y.kind == "arr" {
			stmts = append(stmts, ast.ExprS(ast.Method(yv.Clone(), "push", xv.Clone())))
		} else {
			stmts = append(stmts, ast.ExprS(ast.Set(ast.Mem(yv.Clone(), "late"), xv.Clone())))
		}
		if x.kind == "arr" {
			stmts = append(stmts, ast.ExprS(ast.Method(xv.Clone(), "push", ast.Arr(yv.Clone()))))
		} else {
			stmts = append(stmts, ast.ExprS(ast.Set(ast.Mem(xv.Clone(), "late2"), ast.Obj(ast.KV("k", yv.Clone())))))
		}
		stmts = append(stmts, ast.Print(ast.Str("AFTER"), xv.Clone(), yv.Clone()), ast.Print(ast.Arr(yv.Clone(), xv.Clone())))
		g.labels["cycle-added-after-a-first-print"] = true
	}
	doc := gen.JSONDoc(gen.DocOpts{Depth: 2, MaxItems: 3, SafeStr: true, ForceEmpty: true}).Draw(t, "doc")
	items := []*ast.Node{
		ast.Func("c17sh", []string{"c17v"}, ast.Block(ast.Print(ast.Str("inner"), ast.Id("c17v"), ast.Str("")), ast.Return(ast.Id("c17v")))),
		ast.Rule("pattern", nil, ast.Block(stmts...))}
	if rapid.Bool().Draw(t, "bodiless") {
		// a rule without a body prints $
		items = append(items, ast.Rule("pattern", ast.True(), nil))
		g.labels["bodiless-rule"] = true
	}
	c := &DCase{Prog: ast.Prog(items...), Files: []DFile{{Name: "in", Docs: []string{gen.Compact(doc)}}}}
	return c, g.labels, g.safeStr
}

// ---- re-readability: for values whose strings need no escaping, the rendering of a
// container is JSON equal to the value ---------------------------------------------------------------

type C17Doc struct {
	Doc string `json:"doc"`
}

func c17DocCheck(c *C17Doc) string {
	want, err := jsonx.Parse(c.Doc)
	if err != nil {
		return "harness: " + err.Error()
	}
	o := run.InProc("BEGINFILE { print }", []run.InFile{{Name: "in", Data: []byte(c.Doc)}}, nil, run.Opts{Budget: implBudget})
	if o.Class != "ok" {
		return "printing a document: outcome " + o.Class + " " + o.Msg + o.Panic
	}
	text := strings.TrimSuffix(string(o.Stdout), "\n")
	if want.K == jsonx.Str {
		if text != want.S {
			return fmt.Sprintf("a top-level string is printed as %q, not raw %q", text, want.S)
		}
		return ""
	}
	got, err := jsonx.Parse(text)
	if err != nil {
		return fmt.Sprintf("the rendering of %s is not JSON: %v\n rendering: %s", c.Doc, err, clip(text))
	}
	if !jsonx.Equal(got, want) {
		return fmt.Sprintf("the rendering does not read back as the value\n value:     %s\n rendering: %s", jsonx.Compact(want), clip(text))
	}
	// numbers must carry the sign of zero and the exact double
	if msg := sameNumbers(got, want); msg != "" {
		return msg + "\n rendering: " + clip(text)
	}
	return ""
}

func sameNumbers(a, b *jsonx.Val) string {
	switch a.K {
	case jsonx.Num:
		if math.Float64bits(a.N) != math.Float64bits(b.N) {
			return fmt.Sprintf("number %v re-read as %v", b.N, a.N)
		}
	case jsonx.Arr:
		for i := range a.Items {
			if m := sameNumbers(a.Items[i], b.Items[i]); m != "" {
				return m
			}
		}
	case jsonx.Obj:
		for _, k := range a.Keys() {
			if m := sameNumbers(a.Get(k), b.Get(k)); m != "" {
				return m
			}
		}
	}
	return ""
}

func firstDiff(a, b string) int {
	for k := 0; k < len(a) && k < len(b); k++ {
		if a[k] != b[k] {
			return k
		}
	}
	if len(a) < len(b) {
		return len(a)
	}
	return len(b)
}

func TestC17(t *testing.T) {
	rec := start(t, "C17", "exploration",
		"(a) numbers: every stratum of finite doubles plus uniformly random bit patterns, delivered through JSON input, as literals and through arithmetic; the printed text must match ^-?[0-9]+(\\.[0-9]+)?$ and, converted with exact rational arithmetic, give back the identical bit pattern (sign of zero included). (b) programs that build values from a random shape - scalars, strings over all bytes, arrays and objects nested to depth 3 with empty containers, the same container stored several times (sharing), back-edges to ancestors (cycles of any length through arrays, objects and mixtures) - using only element and member stores at fixed lengths, then print them with 0-4 arguments (bare print and body-less rule included); expected bytes from refjq (4.6): <circular reference> exactly at recurrence points, sharing printed in full. (c) documents with safe strings: the rendering parses as JSON equal to the value. Non-trivial: number outside [1e-5,1e15) or >= 16 significant digits or -0; value with depth >= 3, an empty container, sharing or a cycle. distinct = distinct case.")
	defer rec.Finish()
	rec.Assume("refjq's rendering rules (DESIGN.md 4.6); math/big for the exact decimal -> double conversion")
	rec.Replayer("number", func(raw json.RawMessage) error {
		var c C17Num
		if err := json.Unmarshal(raw, &c); err != nil {
			return err
		}
		if m := c17NumCheck(&c); m != "" {
			return fmt.Errorf("%s", m)
		}
		return nil
	})
	rec.Replayer("render", replayDiff(false))
	rec.Replayer("string-length", func(raw json.RawMessage) error {
		var src string
		if err := json.Unmarshal(raw, &src); err != nil {
			return err
		}
		o := run.InProc(src, nil, nil, run.Opts{Budget: implBudget})
		// the program prints [s] ... and then s itself on the last line: every quoted copy equals it
		lines := strings.Split(strings.TrimSuffix(string(o.Stdout), "\n"), "\n")
		if o.Class != "ok" || len(lines) != 2 {
			return fmt.Errorf("outcome %s (%s), %d lines", o.Class, o.Msg, len(lines))
		}
		q := "\"" + lines[1] + "\""
		if want := fmt.Sprintf("[%s] {%s: 1} [[%s, %s]] {\"k\": {%s: %s}}", q, q, q, q, q, q); lines[0] != want {
			return fmt.Errorf("a nested string / key of %d bytes is not quoted in full (first difference at byte %d)", len(lines[1]), firstDiff(lines[0], want))
		}
		return nil
	})
	rec.Replayer("reread", func(raw json.RawMessage) error {
		var c C17Doc
		if err := json.Unmarshal(raw, &c); err != nil {
			return err
		}
		if m := c17DocCheck(&c); m != "" {
			return fmt.Errorf("%s", m)
		}
		return nil
	})
	if rec.ReplayOnly() {
		return
	}
	excl.ArrayAlias = rec.KnownActive("KF-array-alias", false)
	rec.ReplayTier()

	// nested strings and keys of every length from 0 to 130 bytes and around the powers of two
	// (ASCII and multi-byte): quoted in full, byte for byte (direct oracle: the text)
	if sh, _ := ev.Shard(); sh == 0 {
		lengths := []int{255, 256, 257, 1023, 1024, 1025, 4095, 4096, 4097, 65535, 65536, 65537}
		for l := 0; l <= 130; l++ {
			lengths = append(lengths, l)
		}
		for _, unit := range []string{"abcdefghijklmnopqrstuvwxyz0123456789", "é日a"} {
			for _, l := range lengths {
				str := strings.Repeat(unit, l/len(unit)+1)[:l]
				for !utf8.ValidString(str) {
					str = str[:len(str)-1] // (cut on a character boundary)
				}
				src := "BEGIN { s = \"" + str + "\"\nprint [s], {\"" + str + "\": 1}, [[s, s]], {k: {\"" + str + "\": s}}\nprint s }"
				want := fmt.Sprintf("[%q] {%q: 1} [[%q, %q]] {\"k\": {%q: %q}}\n%s\n", str, str, str, str, str, str, str)
				if unit != "abcdefghijklmnopqrstuvwxyz0123456789" {
					q := "\"" + str + "\""
					want = fmt.Sprintf("[%s] {%s: 1} [[%s, %s]] {\"k\": {%s: %s}}\n%s\n", q, q, q, q, q, q, str)
				}
				o := run.InProc(src, nil, nil, run.Opts{Budget: implBudget})
				rec.Case(fmt.Sprintf("string-length %d %q", l, unit), l >= 15, "nested-string-of-every-length")
				if o.Class != "ok" || string(o.Stdout) != want {
					got := string(o.Stdout)
					rec.Violation("string-length", src, clip(src), fmt.Sprintf("a nested string / key of %d bytes: outcome %s (%s), first difference at byte %d of the output (got %d bytes, want %d)", len(str), o.Class, o.Msg, firstDiff(got, want), len(got), len(want)))
				}
			}
		}
	}

	// values nested deeper than any document can be (the decoder stops at 10000), built by the
	// program: printed in full (direct oracle: the text)
	if sh, _ := ev.Shard(); sh == 0 {
		type deepPrint struct {
			Prog string `json:"prog"`
			N    int    `json:"n"`
		}
		for _, n := range []int{100, 9999, 10000, 10001, 12000, 30000} {
			for _, shape := range []string{"arr", "obj"} {
				var src, want string
				if shape == "arr" {
					src = fmt.Sprintf("BEGIN { a = [7]; for (i = 0; i < %d; i++) a = [a]\nprint a }", n)
					want = strings.Repeat("[", n+1) + "7" + strings.Repeat("]", n+1) + "\n"
				} else {
					src = fmt.Sprintf("BEGIN { a = {k: 7}; for (i = 0; i < %d; i++) a = {k: a}\nprint a }", n)
					want = strings.Repeat("{\"k\": ", n+1) + "7" + strings.Repeat("}", n+1) + "\n"
				}
				o := run.InProc(src, nil, nil, run.Opts{Budget: 2_000_000_000})
				rec.Case(fmt.Sprintf("deep-print %s %d", shape, n), n >= 10000, "deep-nesting")
				if o.Class != "ok" || string(o.Stdout) != want {
					got := string(o.Stdout)
					rec.Violation("deep-print", deepPrint{src, n}, src, fmt.Sprintf("a value nested %d deep: outcome %s (%s), %d bytes printed, expected %d (first difference at byte %d)", n+1, o.Class, o.Msg, len(got), len(want), firstDiff(got, want)))
				}
			}
		}
	}

	check(rec, "number-random", scale(12000, 20000000), func(rt *rapid.T) {
		var x float64
		if rapid.IntRange(0, 2).Draw(rt, "uniformbits") == 0 {
			x = math.Float64frombits(rapid.Uint64().Draw(rt, "bits"))
			if math.IsNaN(x) || math.IsInf(x, 0) {
				x = 0.1
			}
		} else {
			x = gen.Float64().Draw(rt, "x")
		}
		c := &C17Num{Bits: math.Float64bits(x), Via: rapid.SampledFrom([]string{"json", "json", "literal", "arith"}).Draw(rt, "via")}
		msg := c17NumCheck(c)
		rec.Case(fmt.Sprintf("%016x/%s", c.Bits, c.Via), c17NumNontrivial(x), "number", "via-"+c.Via)
		rec.Sample(func() interface{} {
			p, in := c17NumProgram(c)
			return map[string]interface{}{"number": x, "program": p, "input": in}
		})
		if msg != "" {
			p, _ := c17NumProgram(c)
			rec.Pending("number", c, p, msg)
			rt.Fatalf("%s", msg)
		}
	})

	check(rec, "render-random", scale(8000, 6000000), func(rt *rapid.T) {
		c, labels, _ := genC17(rt)
		defer inflight("C17", "render", c, "")()
		var ls []string
		for l := range labels {
			ls = append(ls, l)
		}
		d := runDiff(rec, rt, "render", c, false, func(d *diffResult) bool {
			return labels["depth>=3"] || labels["empty-container"] || labels["sharing"] || labels["cycle"]
		}, ls...)
		// sharing without a cycle must never be reported as circular
		if d.Verdict == "pass" && !labels["cycle"] && bytes.Contains(d.Impl.Stdout, []byte("<circular reference>")) && d.Ref.Events["print-cycle"] == 0 {
			rt.Fatalf("circular marker without a cycle")
		}
	})

	// a bare print (and a rule without a body) prints $ as it is at that moment: again
	// after stores below $, after $ was assigned, in several rules for one record
	check(rec, "bare-print", scale(2500, 1500000), func(rt *rapid.T) {
		o := gen.DocOpts{Depth: 2, MaxItems: 3, SafeStr: true, SmallNums: true, Keys: []string{"n", "list", "k"}}
		nrec := rapid.IntRange(1, 3).Draw(rt, "nrec")
		root := jsonx.VArr()
		for i := 0; i < nrec; i++ {
			el := jsonx.VObj(jsonx.Member{Key: "n", Val: jsonx.VNum(float64(i))}, jsonx.Member{Key: "list", Val: jsonx.VArr(jsonx.VNum(1))}, jsonx.Member{Key: "k", Val: gen.JSONDoc(o).Draw(rt, "kval")})
			root.Items = append(root.Items, el)
		}
		store := func() *ast.Node {
			switch rapid.IntRange(0, 7).Draw(rt, "store") {
			case 6:
				// a cycle that passes through $ itself
				return ast.ExprS(ast.Set(ast.Mem(ast.Dollar(), "me"), ast.Dollar()))
			case 7:
				return ast.ExprS(ast.Set(ast.Mem(ast.Mem(ast.Dollar(), "kid"), "up"), ast.Dollar()))
			case 0:
				return ast.ExprS(ast.Set(ast.Mem(ast.Dollar(), "n"), ast.Str("changed")))
			case 1:
				return ast.ExprS(ast.Method(ast.Mem(ast.Dollar(), "list"), "push", ast.Num("9")))
			case 2:
				return ast.ExprS(ast.Set(ast.Mem(ast.Mem(ast.Dollar(), "fresh"), "deep"), ast.True()))
			case 3:
				return ast.ExprS(ast.Post("++", ast.Mem(ast.Dollar(), "n")))
			case 4:
				return ast.ExprS(ast.Set(ast.Dollar(), ast.Arr(ast.Mem(ast.Dollar(), "n"), ast.Str("replaced"))))
			default:
				return ast.ExprS(ast.Set(ast.Idx(ast.Mem(ast.Dollar(), "list"), ast.Num("0")), ast.Obj(ast.KV("inner", ast.Num("2")))))
			}
		}
		var items []*ast.Node
		for r, nr := 0, rapid.IntRange(1, 3).Draw(rt, "nrules"); r < nr; r++ {
			if rapid.IntRange(0, 3).Draw(rt, "bodiless") == 0 {
				items = append(items, ast.Rule("pattern", ast.Bin("!=", ast.Mem(ast.Dollar(), "n"), ast.Str("zzz")), nil), ast.Rule("END", nil, ast.Block(ast.Print(ast.Str("pad")))))
				continue
			}
			var stmts []*ast.Node
			for k, ns := 0, rapid.IntRange(2, 5).Draw(rt, "nstmts"); k < ns; k++ {
				if rapid.Bool().Draw(rt, "isprint") {
					stmts = append(stmts, ast.Print())
				} else {
					stmts = append(stmts, store())
				}
			}
			stmts = append(stmts, ast.Print(), ast.Print(ast.Str("same:"), ast.Dollar()))
			items = append(items, ast.Rule("pattern", nil, ast.Block(stmts...)))
		}
		c := &DCase{Prog: ast.Prog(items...), Files: []DFile{{Name: "in", Docs: []string{gen.Compact(root)}}}}
		runDiff(rec, rt, "render", c, false, func(*diffResult) bool { return true }, "bare-print-after-stores")
	})

	check(rec, "reread-random", scale(5000, 4000000), func(rt *rapid.T) {
		opts := gen.DocOpts{Depth: rapid.IntRange(1, 4).Draw(rt, "depth"), MaxItems: 3, SafeStr: true, ForceEmpty: true}
		if rapid.IntRange(0, 7).Draw(rt, "wide") == 0 {
			// wide containers: beyond small-size special cases of maps and sorts
			opts.MaxItems = 40
			opts.Depth = rapid.IntRange(1, 2).Draw(rt, "widedepth")
			for i := 0; i < 48; i++ {
				opts.Keys = append(opts.Keys, fmt.Sprintf("k%02d", (i*29)%48), fmt.Sprintf("K%02d", i))
			}
		}
		doc := gen.JSONDoc(opts).Draw(rt, "doc")
		c := &C17Doc{Doc: gen.Compact(doc)}
		msg := c17DocCheck(c)
		rec.Case(c.Doc, doc.K == jsonx.Arr || doc.K == jsonx.Obj, "reread")
		rec.Sample(func() interface{} { return map[string]interface{}{"document": c.Doc, "program": "BEGINFILE { print }"} })
		if msg != "" {
			rec.Pending("reread", c, "BEGINFILE { print }", msg)
			rt.Fatalf("%s", msg)
		}
	})
	_ = ref.Null
}
