package props

import (
	"encoding/json"
	"fmt"
	"strings"
	"testing"

	"verif/harness/ast"
	"verif/harness/gen"
	"verif/harness/run"

	"pgregory.net/rapid"
)

// C05 — operators compute the documented result for every combination of
// operand kinds (DESIGN.md section 3 is the oracle, implemented by refjq).

type operand struct {
	Name string
	Kind string
	Lit  func() *ast.Node // expression denoting the value
	JSON string           // JSON spelling when the value can come from a document
	Var  bool             // can be held in a variable
}

func lit(n *ast.Node) func() *ast.Node { return func() *ast.Node { return n.Clone() } }

func c05Operands() []operand {
	var ops []operand
	num := func(name, spelling, js string) {
		ops = append(ops, operand{name, "num", lit(ast.Num(spelling)), js, true})
	}
	num("0", "0", "0")
	ops = append(ops, operand{"-0", "num", lit(ast.Bin("*", ast.Num("0"), ast.Un("-", ast.Num("1")))), "-0", true})
	num("1", "1", "1")
	ops = append(ops, operand{"-1", "num", lit(ast.Un("-", ast.Num("1"))), "-1", true})
	num("2", "2", "2")
	num("0.5", "0.5", "0.5")
	ops = append(ops, operand{"-2.5", "num", lit(ast.Un("-", ast.Num("2.5"))), "-2.5", true})
	num("7", "7", "7")
	num("2^53", "9007199254740992", "9007199254740992")
	num("1e21", "1000000000000000000000", "1e21")
	num("1e-7", "0.0000001", "1e-7")
	num("5e-324", "0."+strings.Repeat("0", 323)+"5", "5e-324")
	for _, s := range []string{"", "0", "1", "-2.5", "1e2", ".5", "abc", " ", "a b", "10", "9", "B", "a", "é", "(", "^a"} {
		ops = append(ops, operand{fmt.Sprintf("%q", s), "str", lit(ast.Str(s)), jsonString(s), true})
	}
	ops = append(ops, operand{"true", "bool", lit(ast.True()), "true", true})
	ops = append(ops, operand{"false", "bool", lit(ast.False()), "false", true})
	ops = append(ops, operand{"null", "null", lit(ast.Null()), "null", true})
	// nulls of another provenance: what reading a place that does not exist yields
	ops = append(ops, operand{"null(a[5])", "null", lit(ast.Idx(ast.Arr(ast.Num("1"), ast.Num("2")), ast.Num("5"))), "", true})
	ops = append(ops, operand{"null(o.zz)", "null", lit(ast.Mem(ast.Paren(ast.Obj(ast.KV("a", ast.Num("1")))), "zz")), "", true})
	ops = append(ops, operand{"null(o[3])", "null", lit(ast.Idx(ast.Paren(ast.Obj(ast.KV("a", ast.Num("1")))), ast.Num("3"))), "", true})
	ops = append(ops, operand{"null(n.k)", "null", lit(ast.Mem(ast.Num("7"), "k")), "", true})
	ops = append(ops, operand{"unset", "unset", lit(ast.Id("u")), "", false})
	ops = append(ops, operand{"[]", "arr", lit(ast.Arr()), "[]", true})
	ops = append(ops, operand{"[1]", "arr", lit(ast.Arr(ast.Num("1"))), "[1]", true})
	ops = append(ops, operand{"{}", "obj", lit(ast.Paren(ast.Obj())), "{}", true})
	ops = append(ops, operand{"{a:1}", "obj", lit(ast.Paren(ast.Obj(ast.KV("a", ast.Num("1"))))), `{"a":1}`, true})
	ops = append(ops, operand{"/a/", "regex", lit(ast.Regex("a")), "", true})
	ops = append(ops, operand{"/^$/", "regex", lit(ast.Regex("^$")), "", true})
	ops = append(ops, operand{"/(/", "regex", lit(ast.Regex("(")), "", true})
	ops = append(ops, operand{"fn", "fn", lit(ast.Id("fun")), "", false})
	ops = append(ops, operand{"native", "native", lit(ast.Id("printf")), "", false})
	ops = append(ops, operand{"method", "native", lit(ast.Mem(ast.Str("x"), "length")), "", false})
	return ops
}

// c05NumericString draws a numeric string (3.2) from every size class: doubles from all
// strata, digit strings of 1-25 digits, the neighbours of 2^31, 2^32, 2^53, 2^63, 2^64 and
// 10^19, optional sign, leading zeros, fractions and exponents.
func c05NumericString(t *rapid.T) string {
	var core string
	switch rapid.IntRange(0, 3).Draw(t, "nskind") {
	case 0:
		core = gen.NumText(gen.Float64().Draw(t, "nsx"))
		if strings.HasPrefix(core, "-") {
			core = core[1:]
		}
	case 1:
		core = rapid.SampledFrom([]string{"2147483647", "2147483648", "4294967295", "4294967296", "9007199254740991", "9007199254740992", "9007199254740993",
			"999999999999999999", "1000000000000000000", "9223372036854775807", "9223372036854775808", "9223372036854775809", "9999999999999999999", "10000000000000000000",
			"18446744073709551615", "18446744073709551616", "99999999999999999999", "123456789012345678901234567890"}).Draw(t, "nsfixed")
	case 2:
		n := rapid.IntRange(1, 25).Draw(t, "nsdigits")
		b := make([]byte, n)
		for k := range b {
			b[k] = byte('0' + rapid.IntRange(0, 9).Draw(t, "nsd"))
		}
		core = string(b)
	default:
		core = fmt.Sprint(rapid.IntRange(0, 99999).Draw(t, "nsint"))
	}
	if rapid.IntRange(0, 3).Draw(t, "nsfrac") == 0 && !strings.ContainsAny(core, ".eE") {
		core += "." + fmt.Sprint(rapid.IntRange(0, 999).Draw(t, "nsf"))
	}
	if rapid.IntRange(0, 5).Draw(t, "nsexp") == 0 && !strings.ContainsAny(core, "eE") {
		core += rapid.SampledFrom([]string{"e0", "e1", "E2", "e-3", "e+5", "e18", "e-20"}).Draw(t, "nse")
	}
	if rapid.IntRange(0, 5).Draw(t, "nszero") == 0 {
		core = strings.Repeat("0", rapid.IntRange(1, 3).Draw(t, "nsz")) + core
	}
	return rapid.SampledFrom([]string{"", "", "-", "+"}).Draw(t, "nssign") + core
}

func jsonString(s string) string {
	var sb strings.Builder
	sb.WriteByte('"')
	for _, r := range s {
		switch r {
		case '"', '\\':
			sb.WriteByte('\\')
			sb.WriteRune(r)
		default:
			sb.WriteRune(r)
		}
	}
	sb.WriteByte('"')
	return sb.String()
}

var c05BinOps = []string{"+", "-", "*", "/", "%", "==", "!=", "<", "<=", ">", ">=", "&&", "||", "~", "!~"}
var c05Types = []string{"string", "bool", "number", "array", "object", "regex", "unknown", "null", "function"}

// observe builds the statements that print kind and value of variable r.
func c05Observe() []*ast.Node {
	return []*ast.Node{
		ast.ExprS(ast.Call(ast.Id("printf"), ast.Str("%v|%v|%v|"),
			ast.Is(ast.Id("r"), "string"), ast.Is(ast.Id("r"), "number"), ast.Is(ast.Id("r"), "bool"))),
		ast.Print(ast.Id("r")),
	}
}

// c05Program builds the one-operator program. mode: "lit" | "var" | "doc".
// kind: "bin" | "un" | "is".
func c05Program(kind, op string, a, b *operand, mode string) *DCase {
	fun := ast.Func("fun", nil, ast.Block(ast.Return(ast.Num("1"))))
	var stmts []*ast.Node
	var ea, eb *ast.Node
	var doc []string
	switch mode {
	case "lit":
		ea = a.Lit()
		if b != nil {
			eb = b.Lit()
		}
	case "var":
		stmts = append(stmts, ast.ExprS(ast.Set(ast.Id("va"), a.Lit())))
		ea = ast.Id("va")
		if b != nil {
			stmts = append(stmts, ast.ExprS(ast.Set(ast.Id("vb"), b.Lit())))
			eb = ast.Id("vb")
		}
	case "elem":
		// the operands come out of containers
		ea = ast.Idx(ast.Arr(a.Lit()), ast.Num("0"))
		if b != nil {
			eb = ast.Mem(ast.Paren(ast.Obj(ast.KV("v", b.Lit()))), "v")
		}
	case "ret":
		// the operands are returned by functions (declared below)
		ea = ast.Call(ast.Id("reta"))
		if b != nil {
			eb = ast.Call(ast.Id("retb"))
		}
	case "loop":
		// the operands are for-in loop variables
		ea = ast.Id("la")
		if b != nil {
			eb = ast.Id("lb")
		}
	case "same":
		// the same variable on both sides of the operator
		stmts = append(stmts, ast.ExprS(ast.Set(ast.Id("va"), a.Lit())))
		ea = ast.Id("va")
		eb = ast.Id("va")
	case "doc":
		d := `{"a":` + a.JSON
		ea = ast.Mem(ast.Dollar(), "a")
		if b != nil {
			d += `,"b":` + b.JSON
			eb = ast.Mem(ast.Dollar(), "b")
		}
		doc = []string{d + "}"}
	}
	var e *ast.Node
	items := []*ast.Node{fun}
	switch kind {
	case "bin":
		if op == "&&" || op == "||" {
			// the right operand is evaluated inside a function that leaves a trace
			side := ast.Func("side", nil, ast.Block(ast.Print(ast.Str("side")), ast.Return(eb)))
			if mode == "var" {
				// vb is a global assigned before the call
			}
			items = append(items, side)
			e = ast.Bin(op, ea, ast.Call(ast.Id("side")))
		} else {
			e = ast.Bin(op, ea, eb)
		}
	case "un":
		e = ast.Un(op, ea)
	case "is":
		e = ast.Is(ea, op)
	}
	compute := []*ast.Node{ast.ExprS(ast.Set(ast.Id("r"), e))}
	switch mode {
	case "ret":
		items = append(items, ast.Func("reta", nil, ast.Block(ast.Return(a.Lit()))))
		if b != nil {
			items = append(items, ast.Func("retb", nil, ast.Block(ast.Return(b.Lit()))))
		}
	case "loop":
		inner := ast.Block(compute...)
		if b != nil {
			inner = ast.Block(ast.ForIn("lb", "", ast.Arr(b.Lit()), inner))
		}
		compute = []*ast.Node{ast.ForIn("la", "", ast.Arr(a.Lit()), inner)}
	}
	stmts = append(stmts, compute...)
	stmts = append(stmts, c05Observe()...)
	c := &DCase{}
	if mode == "doc" {
		items = append(items, ast.Rule("pattern", nil, ast.Block(stmts...)))
		c.Files = []DFile{{Name: "in.json", Docs: doc}}
	} else {
		items = append(items, ast.Rule("BEGIN", nil, ast.Block(stmts...)))
	}
	c.Prog = ast.Prog(items...)
	bn := ""
	if b != nil {
		bn = b.Name
	}
	c.Tag = fmt.Sprintf("%s %s %s [%s]", a.Name, op, bn, mode)
	return c
}

func c05Labels(kind, op string, a, b *operand) []string {
	ls := []string{"op:" + op}
	if b != nil {
		ls = append(ls, "kinds:"+a.Kind+"x"+b.Kind)
		if a.Kind != b.Kind {
			ls = append(ls, "mixed-kind")
		}
		if (op == "/" || op == "%") && (a.Name == "0" || a.Name == "-0" || a.Name == "0.5") {
			ls = append(ls, "zero-dividend")
		}
		if a.Kind == "unset" || b.Kind == "unset" {
			ls = append(ls, "unset-operand")
		}
		if a.Kind == "arr" || a.Kind == "obj" || b.Kind == "arr" || b.Kind == "obj" {
			ls = append(ls, "container-operand")
		}
	} else {
		ls = append(ls, "kind:"+a.Kind)
	}
	return ls
}

// c05NoSuchType: a program computing r = (x is WORD) for a word that names no type either
// is refused or finds r false.
func c05NoSuchType(c *DCase) string {
	src := c.Source()
	o := run.InProc(src, c.inFiles(), nil, run.Opts{Budget: implBudget})
	if o.Class == "syntax" || o.Class == "runtime" {
		return ""
	}
	if o.Class != "ok" || string(o.Stdout) != "false|false|true|false\n" {
		return fmt.Sprintf("%s: outcome %s %s, output %q; no value has a runtime type of that name, so the test is false (or refused)", c.Tag, o.Class, o.Msg, clip(string(o.Stdout)))
	}
	return ""
}

func TestC05(t *testing.T) {
	rec := start(t, "C05", "exploration",
		"exhaustive grid: every operator x every ordered pair of representative operands (num, str, bool, null, unset, arr, obj, regex, fn, native) x supply mode (literal, variable, document field, container element / member, function result, for-in loop variable), plus `is` x 9 type names and unary ! - +; then random (op, a, b) with generated scalar values. One tiny program per case; expected kind and value (or RuntimeError) from the section-3 tables as implemented by refjq. Every case is non-trivial; distinct = distinct (operator, operand representatives or values, supply mode).")
	defer rec.Finish()
	rec.Assume("refjq's section-3 tables are the documented coercion rules (DESIGN.md section 3, reviewed against the property text)")
	rec.Assume("Go's regexp package decides RE2 validity and matching for ~ and !~")
	rec.Replayer("operator", replayDiff(false))
	rec.Replayer("no-such-type", func(raw json.RawMessage) error {
		var c DCase
		if err := json.Unmarshal(raw, &c); err != nil {
			return err
		}
		if m := c05NoSuchType(&c); m != "" {
			return fmt.Errorf("%s\nprogram:\n%s", m, c.Source())
		}
		return nil
	})
	if rec.ReplayOnly() {
		return
	}
	rec.ReplayTier()

	ops := c05Operands()
	shard, nshards := shardInfo()
	n := 0
	runOne := func(kind, op string, a, b *operand, mode string) {
		n++
		if n%nshards != shard {
			return
		}
		c := c05Program(kind, op, a, b, mode)
		d := runDiff(rec, nil, "operator", c, false, nil, c05Labels(kind, op, a, b)...)
		if d.Verdict == "fail" {
			rec.Violation("operator", c, d.Src, d.Reason)
		}
		if d.Ref.Class == "runtime" {
			rec.Label("error-expected")
		}
	}
	modesFor := func(a, b *operand) []string {
		ms := []string{"lit"}
		if a.Var && (b == nil || b.Var) {
			ms = append(ms, "var")
		}
		if a.JSON != "" && (b == nil || b.JSON != "") {
			ms = append(ms, "doc")
		}
		if a.Var && (b == nil || b.Var) {
			ms = append(ms, "elem", "ret", "loop")
		}
		return ms
	}
	for _, op := range c05BinOps {
		for ai := range ops {
			for bi := range ops {
				a, b := &ops[ai], &ops[bi]
				for _, m := range modesFor(a, b) {
					if rec.ViolationCount() >= 5 {
						break
					}
					runOne("bin", op, a, b, m)
				}
			}
		}
	}
	for _, op := range c05BinOps {
		for ai := range ops {
			if ops[ai].Var {
				runOne("bin", op, &ops[ai], &ops[ai], "same")
			}
		}
	}
	for _, typ := range c05Types {
		for ai := range ops {
			for _, m := range modesFor(&ops[ai], nil) {
				runOne("is", typ, &ops[ai], nil, m)
			}
		}
	}
	// `is` with a word that names no type: no value has that runtime type, so the answer is
	// false (or the program is refused) for every operand - never true (direct oracle)
	if shard == 0 {
		for _, typ := range []string{"str", "String", "int", "boolean", "nil", "float", "list", "dict", "undefined", "nativefunction", "x"} {
			for ai := range ops {
				for _, m := range modesFor(&ops[ai], nil) {
					c := c05Program("is", typ, &ops[ai], nil, m)
					src := c.Source()
					rec.Case(src, true, "is-with-a-word-that-names-no-type", "kind:"+ops[ai].Kind)
					if msg := c05NoSuchType(c); msg != "" {
						rec.Violation("no-such-type", c, src, msg)
					}
				}
			}
		}
	}
	for _, op := range []string{"!", "-", "+"} {
		for ai := range ops {
			for _, m := range modesFor(&ops[ai], nil) {
				runOne("un", op, &ops[ai], nil, m)
			}
		}
	}
	rec.Exhaustive("operators x ordered pairs of representative operands x supply modes (see rule)")

	// the same operator site evaluated several times with different operands (a
	// per-site cache or leftover state shows up only on the second evaluation)
	storable := []operand{}
	for _, o := range ops {
		if o.Var {
			storable = append(storable, o)
		}
	}
	check(rec, "operator-site-reuse", scale(6000, 3000000), func(rt *rapid.T) {
		op := rapid.SampledFrom(c05BinOps).Draw(rt, "op")
		n := rapid.IntRange(2, 5).Draw(rt, "nevals")
		fun := ast.Func("fun", nil, ast.Block(ast.Return(ast.Num("1"))))
		var body *ast.Node
		if op == "&&" || op == "||" {
			body = ast.Bin(op, ast.Id("pa"), ast.Id("pb"))
		} else {
			body = ast.Bin(op, ast.Id("pa"), ast.Id("pb"))
		}
		apply := ast.Func("ap", []string{"pa", "pb"}, ast.Block(ast.Return(body)))
		var stmts []*ast.Node
		var names []string
		for k := 0; k < n; k++ {
			var a, b *ast.Node
			if rapid.Bool().Draw(rt, "fromgrid") {
				oa := storable[rapid.IntRange(0, len(storable)-1).Draw(rt, "ga")]
				ob := storable[rapid.IntRange(0, len(storable)-1).Draw(rt, "gb")]
				a, b = oa.Lit(), ob.Lit()
				names = append(names, oa.Name+" "+op+" "+ob.Name)
			} else {
				a, b = gen.ScalarExpr().Draw(rt, "a"), gen.ScalarExpr().Draw(rt, "b")
				names = append(names, "random")
			}
			if (op == "~" || op == "!~") && rapid.IntRange(0, 2).Draw(rt, "regexrhs") > 0 {
				b = ast.Regex(rapid.SampledFrom([]string{"a", "^b", "b$", "[0-9]", "(", "^$", "x|y", "."}).Draw(rt, "re"))
			}
			stmts = append(stmts, ast.ExprS(ast.Set(ast.Id("r"), ast.Call(ast.Id("ap"), a, b))))
			stmts = append(stmts, c05Observe()...)
		}
		c := &DCase{Prog: ast.Prog(fun, apply, ast.Rule("BEGIN", nil, ast.Block(stmts...))), Tag: "site reuse: " + strings.Join(names, " ; ")}
		runDiff(rec, rt, "operator", c, false, nil, "op:"+op, "site-reuse")
	})

	// the operator is entered again while its right operand is being evaluated (a recursive
	// function whose recursive call is the right, or the left, operand): the outer
	// evaluation still applies the operator to its own left operand
	check(rec, "operator-reentered", scale(3000, 1500000), func(rt *rapid.T) {
		op := rapid.SampledFrom(c05BinOps).Draw(rt, "op")
		depth := rapid.IntRange(1, 6).Draw(rt, "depth")
		var vals []*ast.Node
		numeric := rapid.Bool().Draw(rt, "numeric")
		for k := 0; k < 4; k++ {
			if numeric {
				vals = append(vals, ast.Num(fmt.Sprint(rapid.IntRange(0, 9).Draw(rt, "nv"))))
			} else {
				vals = append(vals, storable[rapid.IntRange(0, len(storable)-1).Draw(rt, "gv")].Lit())
			}
		}
		own := ast.Idx(ast.Id("vals"), ast.Bin("%", ast.Id("n"), ast.Num("4")))
		if numeric && rapid.Bool().Draw(rt, "plainn") {
			own = ast.Id("n")
		}
		again := ast.Call(ast.Id("rec"), ast.Bin("-", ast.Id("n"), ast.Num("1")))
		e := ast.Bin(op, own, again)
		side := rapid.SampledFrom([]string{"right", "right", "left", "both"}).Draw(rt, "recside")
		switch side {
		case "left":
			e = ast.Bin(op, again, own)
		case "both":
			e = ast.Bin(op, ast.Paren(ast.Bin(op, own.Clone(), again.Clone())), again)
			if depth > 4 {
				depth = 4
			}
		}
		base := vals[0].Clone()
		recf := ast.Func("rec", []string{"n"}, ast.Block(ast.If(ast.Bin("<=", ast.Id("n"), ast.Num("0")), ast.Block(ast.Return(base))), ast.Return(e)))
		fun := ast.Func("fun", nil, ast.Block(ast.Return(ast.Num("1"))))
		stmts := []*ast.Node{ast.ExprS(ast.Set(ast.Id("vals"), ast.Arr(vals...))), ast.ExprS(ast.Set(ast.Id("r"), ast.Call(ast.Id("rec"), ast.Num(fmt.Sprint(depth)))))}
		stmts = append(stmts, c05Observe()...)
		c := &DCase{Prog: ast.Prog(fun, recf, ast.Rule("BEGIN", nil, ast.Block(stmts...))), Tag: fmt.Sprintf("operator re-entered: %s, recursion on the %s, depth %d", op, side, depth)}
		runDiff(rec, rt, "operator", c, false, nil, "op:"+op, "operator-reentered", "recursion-"+side)
	})

	// the right operand changes what the left operand names: each operand has the value
	// it had when it was evaluated, left first (DESIGN.md 3, first paragraph)
	check(rec, "operand-order", scale(3000, 1500000), func(rt *rapid.T) {
		op := rapid.SampledFrom(c05BinOps).Draw(rt, "op")
		oa := storable[rapid.IntRange(0, len(storable)-1).Draw(rt, "ga")]
		ob := storable[rapid.IntRange(0, len(storable)-1).Draw(rt, "gb")]
		var place *ast.Node
		var init []*ast.Node
		switch rapid.IntRange(0, 3).Draw(rt, "place") {
		case 0:
			place = ast.Id("x")
			init = []*ast.Node{ast.ExprS(ast.Set(ast.Id("x"), oa.Lit()))}
		case 1:
			place = ast.Idx(ast.Id("arr"), ast.Num("1"))
			init = []*ast.Node{ast.ExprS(ast.Set(ast.Id("arr"), ast.Arr(ast.Num("0"), oa.Lit(), ast.Num("2"))))}
		case 2:
			place = ast.Mem(ast.Id("ob"), "k")
			init = []*ast.Node{ast.ExprS(ast.Set(ast.Id("ob"), ast.Obj(ast.KV("k", oa.Lit()))))}
		default:
			place = ast.Mem(ast.Idx(ast.Id("arr"), ast.Num("0")), "k")
			init = []*ast.Node{ast.ExprS(ast.Set(ast.Id("arr"), ast.Arr(ast.Obj(ast.KV("k", oa.Lit())))))}
		}
		var right *ast.Node
		form := rapid.SampledFrom([]string{"assign", "assign", "post++", "pre--", "compound", "call"}).Draw(rt, "rightform")
		switch form {
		case "assign":
			right = ast.Set(place.Clone(), ob.Lit())
		case "post++":
			right = ast.Post("++", place.Clone())
		case "pre--":
			right = ast.Pre("--", place.Clone())
		case "compound":
			right = ast.Asg("+=", place.Clone(), ob.Lit())
		default:
			right = ast.Call(ast.Id("setit"), ob.Lit())
			place = ast.Id("x")
			init = []*ast.Node{ast.ExprS(ast.Set(ast.Id("x"), oa.Lit()))}
		}
		setit := ast.Func("setit", []string{"nv"}, ast.Block(ast.ExprS(ast.Set(ast.Id("x"), ast.Id("nv"))), ast.Return(ast.Id("nv"))))
		fun := ast.Func("fun", nil, ast.Block(ast.Return(ast.Num("1"))))
		stmts := append(init, ast.ExprS(ast.Set(ast.Id("r"), ast.Bin(op, place.Clone(), right))))
		stmts = append(stmts, c05Observe()...)
		stmts = append(stmts, ast.Print(ast.Str("place"), place.Clone()))
		c := &DCase{Prog: ast.Prog(fun, setit, ast.Rule("BEGIN", nil, ast.Block(stmts...))), Tag: "operand order: " + oa.Name + " " + op + " (" + form + " " + ob.Name + ")"}
		runDiff(rec, rt, "operator", c, false, nil, "op:"+op, "operand-order", "right:"+form)
	})

	// ~ and !~ with patterns given as strings and as regex literals: every piece of RE2
	// syntax (escapes, classes, anchors, alternation, repetition, groups, flags) and the
	// usual ways of being invalid, against subjects that tell "matched as a pattern" from
	// "found as a substring"
	check(rec, "pattern-syntax", scale(3000, 1000000), func(rt *rapid.T) {
		pats := []string{"\\\\d", "\\\\w+", "x\\\\sy", "\\\\.", "\\\\bbar", "\\\\x41", "\\\\", "a\\\\", "[0-9]+", "^a", "b$", "a|b", "a*", "a+?", "(a)(b)", "(?i)ab", "a{2}", "a{2", ".", "", "(", ")", "[", "a**", "\\\\Q.\\\\E", "[[:alpha:]]", "\\\\pL", "\\\\1"}
		subs := []string{"a1", "x y", "a.b", "\\\\d", "foo bar", "A", "ab", "aab", "", ".", "a{2", "é", "AB", "x\\\\sy", "\\\\"}
		n := rapid.IntRange(1, 4).Draw(rt, "npat")
		fun := ast.Func("fun", nil, ast.Block(ast.Return(ast.Num("1"))))
		var stmts []*ast.Node
		var names []string
		for k := 0; k < n; k++ {
			op := rapid.SampledFrom([]string{"~", "!~"}).Draw(rt, "top")
			pat := rapid.SampledFrom(pats).Draw(rt, "pat")
			sub := rapid.SampledFrom(subs).Draw(rt, "sub")
			var b *ast.Node
			switch rapid.IntRange(0, 2).Draw(rt, "patform") {
			case 0:
				b = ast.Str(pat)
			case 1:
				stmts = append(stmts, ast.ExprS(ast.Set(ast.Id("pv"), ast.Str(pat))))
				b = ast.Id("pv")
			default:
				b = ast.Str(pat)
				if !strings.Contains(pat, "/") && pat != "" && !strings.HasPrefix(pat, "=") {
					// the same source text as a regex literal (its text is taken as it stands:
					// the string escape \\ is one backslash there)
					b = ast.Regex(strings.ReplaceAll(pat, "\\\\", "\\"))
				}
			}
			stmts = append(stmts, ast.ExprS(ast.Set(ast.Id("r"), ast.Bin(op, ast.Str(sub), b))))
			stmts = append(stmts, c05Observe()...)
			names = append(names, sub+" "+op+" "+pat)
		}
		c := &DCase{Prog: ast.Prog(fun, ast.Rule("BEGIN", nil, ast.Block(stmts...))), Tag: "pattern syntax: " + strings.Join(names, " ; ")}
		runDiff(rec, rt, "operator", c, false, nil, "pattern-syntax")
	})

	// numeric strings of every length and spelling, as literal, variable and document field:
	// the value is the nearest double of the decimal text (3.2), whatever size class the
	// digit string falls into
	check(rec, "numeric-strings", scale(3000, 1500000), func(rt *rapid.T) {
		str := c05NumericString(rt)
		fun := ast.Func("fun", nil, ast.Block(ast.Return(ast.Num("1"))))
		var operand *ast.Node
		c := &DCase{}
		var pre []*ast.Node
		switch rapid.IntRange(0, 2).Draw(rt, "nsupply") {
		case 0:
			operand = ast.Str(str)
		case 1:
			pre = append(pre, ast.ExprS(ast.Set(ast.Id("ns"), ast.Str(str))))
			operand = ast.Id("ns")
		default:
			c.Files = []DFile{{Name: "in", Docs: []string{`{"s":` + gen.JSONString(str) + `}`}}}
			operand = ast.Mem(ast.Dollar(), "s")
		}
		var expr *ast.Node
		other := rapid.SampledFrom([]*ast.Node{ast.Num("1"), ast.Num("0"), ast.Num("9223372036854775808"), ast.Num("5000000000000000000"), ast.Str("1"), ast.True(), ast.Null()}).Draw(rt, "nother").Clone()
		switch op := rapid.SampledFrom([]string{"neg", "pos", "*", "-", "/", "==", "<", ">=", "rsub", "!="}).Draw(rt, "nop"); op {
		case "neg":
			expr = ast.Un("-", operand)
		case "pos":
			expr = ast.Un("+", operand)
		case "rsub":
			expr = ast.Bin("-", other, operand)
		default:
			expr = ast.Bin(op, operand, other)
		}
		stmts := append(pre, ast.ExprS(ast.Set(ast.Id("r"), expr)))
		stmts = append(stmts, c05Observe()...)
		kind := "BEGIN"
		if c.Files != nil {
			kind = "pattern"
		}
		c.Prog = ast.Prog(fun, ast.Rule(kind, nil, ast.Block(stmts...)))
		c.Tag = "numeric string " + str
		runDiff(rec, rt, "operator", c, false, nil, "numeric-strings")
	})

	// random operands
	check(rec, "operator-random", scale(20000, 20000000), func(rt *rapid.T) {
		kind := rapid.SampledFrom([]string{"bin", "bin", "bin", "bin", "un", "is"}).Draw(rt, "kind")
		va := gen.ScalarExpr().Draw(rt, "a")
		a := &operand{Name: ast.Source(va), Kind: gen.KindOf(va), Lit: lit(va), Var: true}
		var b *operand
		var op string
		switch kind {
		case "bin":
			op = rapid.SampledFrom(c05BinOps).Draw(rt, "op")
			vb := gen.ScalarExpr().Draw(rt, "b")
			b = &operand{Name: ast.Source(vb), Kind: gen.KindOf(vb), Lit: lit(vb), Var: true}
		case "un":
			op = rapid.SampledFrom([]string{"!", "-", "+"}).Draw(rt, "op")
		case "is":
			op = rapid.SampledFrom(c05Types).Draw(rt, "op")
		}
		mode := rapid.SampledFrom([]string{"lit", "var", "var", "same", "elem", "ret", "loop"}).Draw(rt, "mode")
		if mode == "same" && kind != "bin" {
			mode = "var"
		}
		c := c05Program(kind, op, a, b, mode)
		runDiff(rec, rt, "operator", c, false, nil, append(c05Labels(kind, op, a, b), "random")...)
	})
}
