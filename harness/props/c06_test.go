package props

import (
	"bytes"
	"encoding/json"
	"fmt"
	"strings"
	"testing"

	"verif/harness/ast"
	"verif/harness/ev"
	"verif/harness/gen"
	"verif/harness/jsonx"
	"verif/harness/ref"
	"verif/harness/run"

	"pgregory.net/rapid"
)

// C06 — precedence and associativity: an expression written with minimal
// parentheses means its fully parenthesised form (table 3.9).

type C06Case struct {
	Expr *ast.Node `json:"expr"`
	Red  *ast.Node `json:"red,omitempty"` // the same tree with redundant parentheses
	Tag  string    `json:"tag,omitempty"`
	Ctx  string    `json:"ctx,omitempty"` // syntactic position of the expression ("" = right side of an assignment)
}

// the positions an expression can be written in; the grammar must read it the
// same way in each of them
var c06Contexts = []string{"", "", "print", "print-second", "condition", "argument", "element", "index", "return", "pattern", "forin", "object-value", "while-condition"}

var c06Env = &gen.Env{
	Nums: []string{"n1", "n2", "n3", "n4"}, Strs: []string{"s1", "s2"}, Bools: []string{"b1"},
	Arrs: []string{"a1"}, Objs: []string{"o1"}, Unset: []string{"u1"},
	Funs: []gen.Fun{{Name: "inc", Arity: 1}, {Name: "add", Arity: 2}},
}

func c06Program(e *ast.Node) *ast.Node { return c06ProgramCtx(e, "") }

func c06ProgramCtx(e *ast.Node, ctx string) *ast.Node {
	set := func(n string, v *ast.Node) *ast.Node { return ast.ExprS(ast.Set(ast.Id(n), v)) }
	var use []*ast.Node
	var extraItems []*ast.Node
	switch ctx {
	case "print":
		use = []*ast.Node{ast.Print(e), set("r", ast.Num("0"))}
	case "print-second":
		use = []*ast.Node{ast.Print(ast.Str("p"), e, ast.Str("q")), set("r", ast.Num("0"))}
	case "condition":
		use = []*ast.Node{ast.IfElse(e, ast.Block(set("r", ast.Str("T"))), ast.Block(set("r", ast.Str("F"))))}
	case "argument":
		use = []*ast.Node{set("r", ast.Call(ast.Id("add"), ast.Str("<"), e))}
	case "element":
		use = []*ast.Node{set("r", ast.Idx(ast.Arr(ast.Num("0"), e, ast.Num("0")), ast.Num("1")))}
	case "index":
		use = []*ast.Node{set("r", ast.Idx(ast.Arr(ast.Str("i0"), ast.Str("i1"), ast.Str("i2"), ast.Str("i3")), e))}
	case "return":
		extraItems = append(extraItems, ast.Func("retf", nil, ast.Block(ast.Return(e))))
		use = []*ast.Node{set("r", ast.Call(ast.Id("retf")))}
	case "pattern":
		use = []*ast.Node{set("r", ast.Str("set in END"))}
	case "forin":
		use = []*ast.Node{set("r", ast.Num("0")), ast.ForIn("q", "", ast.Arr(e), ast.Block(set("r", ast.Id("q"))))}
	case "object-value":
		use = []*ast.Node{set("r", ast.Mem(ast.Paren(ast.Obj(ast.KV("a", ast.Num("1")), ast.KV("v", e), ast.KV("z", ast.Num("2")))), "v"))}
	case "while-whole-condition":
		// the expression is the whole condition of a while (an assignment may stand there)
		use = []*ast.Node{set("r", ast.Str("F")), set("wc", ast.Num("0")), ast.While(e, ast.Block(set("r", ast.Str("T")), ast.ExprS(ast.Post("++", ast.Id("wc"))), ast.If(ast.Bin(">", ast.Id("wc"), ast.Num("0")), ast.Block(ast.Break()))))}
	case "while-condition":
		use = []*ast.Node{set("r", ast.Str("F")), set("wc", ast.Num("0")), ast.While(ast.Bin("&&", ast.Bin("<", ast.Post("++", ast.Id("wc")), ast.Num("1")), ast.Paren(e)), ast.Block(set("r", ast.Str("T"))))}
	default:
		use = []*ast.Node{ast.ExprS(ast.Set(ast.Id("r"), e))}
	}
	stmts := []*ast.Node{
		set("n1", ast.Num("7")), set("n2", ast.Num("3")), set("n3", ast.Num("2")), set("n4", ast.Num("5")),
		set("s1", ast.Str("ab")), set("s2", ast.Str("b")), set("b1", ast.True()),
		set("a1", ast.Arr(ast.Num("3"), ast.Num("1"), ast.Num("2"))),
		set("o1", ast.Obj(ast.KV("k", ast.Num("4")), ast.KV("n", ast.Num("10")))),
		set("x", ast.Num("0")), set("y", ast.Num("0")), set("z", ast.Num("0")),
	}
	items := []*ast.Node{
		ast.Func("inc", []string{"p"}, ast.Block(ast.Return(ast.Bin("+", ast.Id("p"), ast.Num("1"))))),
		ast.Func("add", []string{"p", "q"}, ast.Block(ast.Return(ast.Bin("+", ast.Id("p"), ast.Id("q"))))),
	}
	items = append(items, extraItems...)
	tail := append(c05Observe(), ast.Print(ast.Id("x"), ast.Id("y"), ast.Id("z")))
	if ctx == "pattern" {
		// the expression is the pattern of an END-side rule: BEGIN sets the variables, a
		// pattern rule with the expression as its pattern runs on the one input value
		items = append(items, ast.Rule("BEGIN", nil, ast.Block(stmts...)),
			ast.Rule("pattern", e, ast.Block(ast.Print(ast.Str("pattern matched")))),
			ast.Rule("END", nil, ast.Block(append(use, tail...)...)))
		return ast.Prog(items...)
	}
	stmts = append(stmts, use...)
	stmts = append(stmts, tail...)
	items = append(items, ast.Rule("BEGIN", nil, ast.Block(stmts...)))
	return ast.Prog(items...)
}

type c06Verdict struct {
	Fail    string
	Discard string
	RefOut  string
	Src     string
}

func sameOutcome(a, b run.Outcome) bool {
	return a.Class == b.Class && bytes.Equal(a.Stdout, b.Stdout)
}

func c06Check(c *C06Case) c06Verdict {
	prog := c06ProgramCtx(c.Expr, c.Ctx)
	var files []run.InFile
	if c.Ctx == "pattern" {
		files = []run.InFile{{Name: "in", Data: []byte("7")}}
	}
	minSrc := ast.SourceMin(prog)
	fullSrc := ast.Render(prog, ast.FullTargets).Join(ast.Canonical{}).Src
	v := c06Verdict{Src: minSrc}
	iMin := run.InProc(minSrc, files, nil, run.Opts{Budget: implBudget})
	iFull := run.InProc(fullSrc, files, nil, run.Opts{Budget: implBudget})
	if !sameOutcome(iMin, iFull) {
		v.Fail = fmt.Sprintf("minimal and fully parenthesised renderings behave differently\n minimal: %s\n  -> %s %q\n full:    %s\n  -> %s %q",
			exprLine(minSrc), iMin.Class, clip(string(iMin.Stdout)), exprLine(fullSrc), iFull.Class, clip(string(iFull.Stdout)))
		return v
	}
	// the same minimal token sequence with nothing between tokens that cannot fuse: a sign
	// glued to a number, a dot glued to a literal, operators glued to each other
	tightSrc := ast.Render(prog, ast.Minimal).Join(gen.Tight{}).Src
	iTight := run.InProc(tightSrc, files, nil, run.Opts{Budget: implBudget})
	if !sameOutcome(iTight, iFull) {
		v.Fail = fmt.Sprintf("the minimal rendering written without blanks behaves differently\n tight: %s\n  -> %s %q\n full:  %s\n  -> %s %q",
			exprLine(tightSrc), iTight.Class, clip(string(iTight.Stdout)), exprLine(fullSrc), iFull.Class, clip(string(iFull.Stdout)))
		return v
	}
	if c.Red != nil {
		redSrc := ast.SourceMin(c06ProgramCtx(c.Red, c.Ctx))
		iRed := run.InProc(redSrc, files, nil, run.Opts{Budget: implBudget})
		if !sameOutcome(iRed, iFull) {
			v.Fail = fmt.Sprintf("redundant parentheses change the behaviour\n redundant: %s\n  -> %s %q\n full:      %s\n  -> %s %q",
				exprLine(redSrc), iRed.Class, clip(string(iRed.Stdout)), exprLine(fullSrc), iFull.Class, clip(string(iFull.Stdout)))
			return v
		}
	}
	var rfiles []ref.File
	if c.Ctx == "pattern" {
		rfiles = []ref.File{{Name: "in", Values: []*jsonx.Val{jsonx.VNum(7)}}}
	}
	rr := ref.Run(ref.Config{Prog: prog, Files: rfiles, Hint: iFull.Stdout, Excl: excl})
	switch rr.Class {
	case "unspecified", "known":
		v.Discard = rr.Reason
		return v
	}
	v.RefOut = rr.Class + ":" + string(rr.Out)
	if iFull.Class != rr.Class || !bytes.Equal(iFull.Stdout, rr.Out) {
		v.Fail = fmt.Sprintf("the fully parenthesised rendering does not evaluate to the intended tree's value\n full: %s\n implementation: %s %q\n reference:      %s %q",
			exprLine(fullSrc), iFull.Class, clip(string(iFull.Stdout)), rr.Class, clip(string(rr.Out)))
	}
	return v
}

// exprLine extracts the "r = ..." line of a rendered C06 program.
func exprLine(src string) string {
	for _, l := range strings.Split(src, "\n") {
		if strings.HasPrefix(l, "r = ") && !strings.HasPrefix(l, "r = 0") && !strings.HasPrefix(l, "r = \"") {
			return l
		}
	}
	return "\n" + src
}

// shapes enumerates every binary tree over leaves[0..n] with ops[0..n-1] in order.
func shapes(ops []string, leaves []*ast.Node) []*ast.Node {
	if len(ops) == 0 {
		return []*ast.Node{leaves[0]}
	}
	var out []*ast.Node
	for k := range ops {
		ls := shapes(ops[:k], leaves[:k+1])
		rs := shapes(ops[k+1:], leaves[k+1:])
		for _, l := range ls {
			for _, r := range rs {
				out = append(out, ast.Bin(ops[k], l.Clone(), r.Clone()))
			}
		}
	}
	return out
}

// refValue evaluates the program for e in refjq and returns a comparable string.
func c06RefValue(e *ast.Node) string {
	rr := ref.Run(ref.Config{Prog: c06Program(e), Excl: excl})
	if rr.Class == "unspecified" || rr.Class == "known" {
		return "?"
	}
	return rr.Class + ":" + string(rr.Out)
}

// c06Quick evaluates a tree of literals, unary and binary operators directly
// with refjq's operator functions (no program around it): used to search for
// operand values that tell the groupings of an operator sequence apart.
func c06Quick(n *ast.Node) (out string) {
	defer func() {
		if r := recover(); r != nil {
			switch r.(type) {
			case ref.RuntimeErr:
				out = "runtime-error"
			default:
				out = "?"
			}
		}
	}()
	var ev func(n *ast.Node) ref.V
	ev = func(n *ast.Node) ref.V {
		switch n.K {
		case "num":
			f, _ := jsonx.NearestDouble(string(n.S))
			return ref.Num(f)
		case "str":
			return ref.Str(string(n.S))
		case "true":
			return ref.Bool(true)
		case "false":
			return ref.Bool(false)
		case "null":
			return ref.Null
		case "un":
			return ref.Unary(string(n.S), ev(n.C[0]))
		case "bin":
			op := string(n.S)
			if op == "&&" || op == "||" {
				l, _ := ref.Truthy(ev(n.C[0]))
				if (op == "&&" && !l) || (op == "||" && l) {
					return ref.Bool(l)
				}
				r, _ := ref.Truthy(ev(n.C[1]))
				return ref.Bool(r)
			}
			return ref.BinOp(op, ev(n.C[0]), ev(n.C[1]))
		}
		panic(ref.Unspec{Reason: "quick"})
	}
	v := ev(n)
	return fmt.Sprintf("%v|%v|%v|%q", v.K, v.B, v.N, v.S)
}

var c06Pool = []*ast.Node{ast.Num("0"), ast.Num("1"), ast.Num("2"), ast.Num("5"), ast.True(), ast.False(), ast.Str("ab"), ast.Str("b"), ast.Str("^$"), ast.Str(""), ast.Null(), ast.Num("0.5")}

// c06FindOperands searches the pool for operand tuples under which the tree
// shapes of the operator sequence do not all evaluate alike (preferring tuples
// where no shape is an error).
func c06FindOperands(ops []string, want int) [][]*ast.Node {
	n := len(ops) + 1
	var found, foundErr [][]*ast.Node
	total := 1
	for k := 0; k < n; k++ {
		total *= len(c06Pool)
	}
	stride := 1
	budget := 1728
	if n >= 4 {
		budget = 500
	}
	if total > budget {
		stride = total/budget | 1
	}
	for code := 0; code < total && len(found) < want; code += stride {
		leaves := make([]*ast.Node, n)
		c := code
		for k := 0; k < n; k++ {
			leaves[k] = c06Pool[c%len(c06Pool)]
			c /= len(c06Pool)
		}
		vals := map[string]bool{}
		hasErr := false
		for _, tr := range shapes(ops, leaves) {
			v := c06Quick(tr)
			if v == "?" {
				vals = nil
				break
			}
			if v == "runtime-error" {
				hasErr = true
			}
			vals[v] = true
		}
		if len(vals) >= 2 {
			if hasErr {
				if len(foundErr) < want {
					foundErr = append(foundErr, leaves)
				}
			} else {
				found = append(found, leaves)
			}
		}
	}
	for len(found) < want && len(foundErr) > 0 {
		found = append(found, foundErr[0])
		foundErr = foundErr[1:]
	}
	return found
}

func TestC06(t *testing.T) {
	rec := start(t, "C06", "exploration",
		"exhaustive: every ordered pair and triple of the 15 binary operators (levels 2-5 of table 3.9) over four fixed operand sets plus up to two operand tuples found by search (values under which the groupings of exactly that sequence differ), in every tree shape (2 resp. 5); every prefix operator against every binary operator and against member/index/call; `is`; assignment chains. Every pair also in every syntactic position (print argument, condition, call argument, array element, index, return value, rule pattern, for-in iterable, object value, while condition). Random: expression trees to depth 6 (8 thorough), each in a random position. Each intended tree T is rendered with minimal, full and redundant parentheses; all renderings must behave alike and equal refjq(T). Non-trivial = discriminating: some other grouping of the same token sequence evaluates differently in refjq. distinct = distinct minimal rendering.")
	defer rec.Finish()
	rec.Assume("refjq evaluates the harness AST, i.e. the intended tree, independently of jqawk's parser")
	rec.Replayer("grouping", func(raw json.RawMessage) error {
		var c C06Case
		if err := json.Unmarshal(raw, &c); err != nil {
			return err
		}
		if v := c06Check(&c); v.Fail != "" {
			return fmt.Errorf("%s", v.Fail)
		}
		return nil
	})
	if rec.ReplayOnly() {
		return
	}
	rec.ReplayTier()

	shard, nshards := ev.Shard()
	count := 0
	runCase := func(c *C06Case, discriminating bool, labels ...string) {
		v := c06Check(c)
		if v.Discard != "" {
			rec.Discard(v.Discard)
			// the metamorphic half has still been checked
		}
		rec.Case(v.Src, discriminating, labels...)
		rec.Sample(func() interface{} {
			return map[string]interface{}{"minimal": exprLine(v.Src), "full": exprLine(ast.Source(c06Program(c.Expr))), "expected": v.RefOut, "tag": c.Tag}
		})
		if v.Fail != "" {
			rec.Violation("grouping", c, v.Src, v.Fail)
		}
	}

	sets := [][]*ast.Node{
		{ast.Id("n1"), ast.Id("n2"), ast.Id("n3"), ast.Id("n4")},
		{ast.Id("s1"), ast.Id("n2"), ast.Id("s2"), ast.Num("0")},
		// all strings, so that ~ and !~ have patterns on their right in every grouping
		{ast.Id("s1"), ast.Id("s2"), ast.Str("a"), ast.Str("^$")},
		{ast.Id("b1"), ast.Id("s2"), ast.Id("n3"), ast.Id("s1")},
		// regex literals as operands: a literal on the right of ~ is an operand like any other,
		// a tighter operator after it takes it first (x ~ /re/ + s is x ~ (/re/ + s))
		{ast.Id("s1"), ast.Regex("zzz"), ast.Str("b"), ast.Regex("q")},
	}
	for _, n := range []int{2, 3} {
		var rec2 func(ops []string)
		rec2 = func(ops []string) {
			if len(ops) < n {
				for _, op := range gen.AllBin {
					rec2(append(append([]string{}, ops...), op))
				}
				return
			}
			count++
			if count%nshards != shard || rec.ViolationCount() >= 5 {
				return
			}
			anyDisc := false
			for si, set := range sets {
				if n == 3 && si >= 2 && !(strings.Contains(strings.Join(ops, " "), "~")) {
					continue // the string sets are for the match operators
				}
				if n == 3 && si == 1 && !evThorough() {
					continue // quick tier: one fixed set and one searched tuple per triple
				}
				trees := shapes(ops, set[:n+1])
				vals := map[string]bool{}
				for _, tr := range trees {
					vals[c06RefValue(tr)] = true
				}
				disc := len(vals) >= 2
				anyDisc = anyDisc || disc
				for _, tr := range trees {
					runCase(&C06Case{Expr: tr, Tag: fmt.Sprintf("ops %v set %d", ops, si)}, disc, fmt.Sprintf("arity-%d", n))
					if n == 2 && si == 0 {
						// every operator pair also in every other syntactic position
						for _, ctx := range c06Contexts[2:] {
							runCase(&C06Case{Expr: tr, Ctx: ctx, Tag: fmt.Sprintf("ops %v in %s", ops, ctx)}, disc, "arity-2-in-context", "context:"+ctx)
						}
					}
				}
			}
			// operand values found by search: they tell the groupings of exactly this sequence apart
			nsearch := 2
			if n == 3 && !evThorough() {
				nsearch = 1
			}
			for fi, leaves := range c06FindOperands(ops, nsearch) {
				anyDisc = true
				for _, tr := range shapes(ops, leaves) {
					runCase(&C06Case{Expr: tr, Tag: fmt.Sprintf("ops %v searched operands %d", ops, fi)}, true, fmt.Sprintf("arity-%d", n), "searched-operands")
				}
			}
			if !anyDisc {
				// no operand set tells the groupings of this operator sequence apart: a blind spot, made visible
				rec.Label(fmt.Sprintf("no-discriminating-operands-arity-%d", n))
				if n == 2 {
					rec.Label("no-discriminating-operands:" + strings.Join(ops, " "))
				}
			}
		}
		rec2(nil)
	}
	rec.Exhaustive("every ordered pair and triple of the 15 binary operators x 2 operand sets x every tree shape")

	// prefix operators against binary operators and postfix forms
	for _, u := range []string{"!", "-", "+"} {
		for _, op := range gen.AllBin {
			anyDisc := false
			for _, pair := range [][2]*ast.Node{{ast.Id("n1"), ast.Id("n2")}, {ast.Id("s1"), ast.Id("s2")}, {ast.Id("s2"), ast.Str("^$")}, {ast.Num("0"), ast.Str("a")}, {ast.Id("b1"), ast.Str("1")}} {
				a, b := pair[0], pair[1]
				alt := map[string]bool{c06RefValue(ast.Bin(op, ast.Un(u, a), b)): true, c06RefValue(ast.Un(u, ast.Bin(op, a, b))): true}
				anyDisc = anyDisc || len(alt) >= 2
				for _, tr := range []*ast.Node{
					ast.Bin(op, ast.Un(u, a), b), ast.Un(u, ast.Bin(op, a, b)),
					ast.Bin(op, a, ast.Un(u, b)),
				} {
					runCase(&C06Case{Expr: tr, Tag: "prefix " + u + " vs " + op}, len(alt) >= 2, "prefix-vs-binary")
				}
			}
			if !anyDisc {
				rec.Label("no-discriminating-operands:prefix " + u + " vs " + op)
			}
		}
		for _, tr := range []*ast.Node{
			ast.Un(u, ast.Mem(ast.Id("o1"), "k")), ast.Un(u, ast.Idx(ast.Id("a1"), ast.Num("0"))),
			ast.Un(u, ast.Call(ast.Id("inc"), ast.Num("4"))), ast.Un(u, ast.Method(ast.Id("a1"), "length")),
			ast.Mem(ast.Un(u, ast.Id("n1")), "k"), ast.Method(ast.Un(u, ast.Num("2.5")), "floor"),
			ast.Un(u, ast.Method(ast.Num("2.5"), "floor")),
			ast.Un(u, ast.Un("-", ast.Id("n2"))), ast.Un(u, ast.Un("!", ast.Id("n2"))),
			ast.Is(ast.Un(u, ast.Id("s1")), "string"), ast.Un(u, ast.Is(ast.Id("s1"), "string")),
		} {
			runCase(&C06Case{Expr: tr, Tag: "prefix " + u + " vs postfix"}, true, "prefix-vs-postfix")
		}
	}
	// `is` against binary operators
	for _, op := range gen.AllBin {
		for _, tr := range []*ast.Node{
			ast.Is(ast.Bin(op, ast.Id("s1"), ast.Id("n2")), "string"),
			ast.Bin(op, ast.Id("s1"), ast.Is(ast.Id("n2"), "string")),
			ast.Bin(op, ast.Is(ast.Id("s1"), "string"), ast.Id("n2")),
			ast.Is(ast.Bin(op, ast.Id("s1"), ast.Id("n2")), "number"),
		} {
			runCase(&C06Case{Expr: tr, Tag: "is vs " + op}, true, "is-vs-binary")
		}
	}
	// assignment chains: right to left, lowest precedence
	x, y, z := ast.Id("x"), ast.Id("y"), ast.Id("z")
	for _, aop := range []string{"=", "+=", "-=", "*=", "/="} {
		for _, bop := range []string{"=", "+=", "-=", "*=", "/="} {
			runCase(&C06Case{Expr: ast.Asg(aop, x, ast.Asg(bop, y, ast.Num("6"))), Tag: "x " + aop + " y " + bop + " 6"}, true, "assignment-chain")
			for _, ctx := range []string{"condition", "while-whole-condition", "index", "argument", "return", "forin", "pattern"} {
				runCase(&C06Case{Expr: ast.Asg(aop, x.Clone(), ast.Asg(bop, y.Clone(), ast.Bin("+", ast.Id("n1"), ast.Num("1")))), Ctx: ctx, Tag: "x " + aop + " y " + bop + " n1 + 1 as " + ctx}, true, "assignment-chain", "context:"+ctx)
			}
			runCase(&C06Case{Expr: ast.Asg(aop, x, ast.Asg(bop, y, ast.Asg("=", z, ast.Num("4")))), Tag: "triple chain"}, true, "assignment-chain")
		}
		for _, op := range gen.AllBin {
			runCase(&C06Case{Expr: ast.Asg(aop, x, ast.Bin(op, ast.Id("n1"), ast.Id("n2"))), Tag: "x " + aop + " a " + op + " b"}, true, "assignment-vs-binary")
			runCase(&C06Case{Expr: ast.Bin(op, ast.Asg(aop, x, ast.Id("n1")), ast.Id("n2")), Tag: "(x " + aop + " a) " + op + " b"}, true, "assignment-vs-binary")
			runCase(&C06Case{Expr: ast.Bin(op, ast.Id("n1"), ast.Asg(aop, x, ast.Id("n2"))), Tag: "a " + op + " (x " + aop + " b)"}, true, "assignment-vs-binary")
		}
	}
	// the same with member and index expressions as targets: in the fully parenthesised form
	// the target itself stands in parentheses ((o1.k) = 5, (a1[0]) += 1, (o1.k)++)
	mx, my := ast.Mem(ast.Id("o1"), "k"), ast.Idx(ast.Id("a1"), ast.Num("0"))
	for _, aop := range []string{"=", "+=", "-=", "*=", "/="} {
		for _, bop := range []string{"=", "+=", "*="} {
			runCase(&C06Case{Expr: ast.Asg(aop, mx, ast.Asg(bop, my, ast.Num("6"))), Tag: "o1.k " + aop + " a1[0] " + bop + " 6"}, true, "assignment-chain", "member-or-index-target")
			runCase(&C06Case{Expr: ast.Bin("+", ast.Asg(aop, my.Clone(), ast.Num("2")), ast.Asg(bop, mx.Clone(), ast.Num("3"))), Tag: "(a1[0] " + aop + " 2) + (o1.k " + bop + " 3)"}, true, "assignment-vs-binary", "member-or-index-target")
		}
	}
	for _, tr := range []*ast.Node{
		ast.Bin("*", ast.Post("++", mx.Clone()), ast.Num("3")), ast.Bin("-", ast.Num("10"), ast.Pre("--", my.Clone())), ast.Bin("+", ast.Pre("++", mx.Clone()), ast.Post("--", my.Clone())),
	} {
		runCase(&C06Case{Expr: tr, Tag: "++/-- on member and index targets"}, true, "incdec-in-parens", "member-or-index-target")
	}
	// parentheses override everything: ++/-- only inside parentheses
	for _, tr := range []*ast.Node{
		ast.Bin("*", ast.Post("++", x), ast.Num("3")), ast.Bin("-", ast.Num("10"), ast.Pre("--", y)),
		ast.Un("-", ast.Post("++", x)), ast.Bin("+", ast.Pre("++", x), ast.Post("++", x)),
	} {
		runCase(&C06Case{Expr: tr, Tag: "++/-- in parentheses"}, true, "incdec-in-parens")
	}

	depth := 6
	if ev.Thorough() {
		depth = 8
	}
	check(rec, "grouping-random", scale(10000, 2000000), func(rt *rapid.T) {
		want := rapid.SampledFrom([]string{"num", "num", "bool", "str", "any"}).Draw(rt, "want")
		e := gen.Expr(c06Env, depth, want).Draw(rt, "expr")
		c := &C06Case{Expr: e, Red: gen.Redundant(e).Draw(rt, "red"), Tag: "random", Ctx: rapid.SampledFrom(c06Contexts).Draw(rt, "ctx")}
		v := c06Check(c)
		if v.Discard != "" {
			rec.Discard(v.Discard)
		}
		disc := c06Discriminating(e)
		rec.Case(v.Src, disc, "random", "context:"+c.Ctx)
		rec.Sample(func() interface{} {
			return map[string]interface{}{"minimal": exprLine(v.Src), "redundant": exprLine(ast.SourceMin(c06Program(c.Red))), "expected": v.RefOut}
		})
		if v.Fail != "" {
			rec.Pending("grouping", c, v.Src, v.Fail)
			rt.Fatalf("%s", v.Fail)
		}
	})
}

// c06Discriminating: does some single regrouping of the tree (a rotation at one
// binary node: (a op1 b) op2 c <-> a op1 (b op2 c)) change the reference result?
func c06Discriminating(e *ast.Node) bool {
	base := c06RefValue(e)
	found := false
	var visit func(n *ast.Node, rebuild func(*ast.Node) *ast.Node)
	visit = func(n *ast.Node, rebuild func(*ast.Node) *ast.Node) {
		if found || n == nil {
			return
		}
		if n.K == "bin" {
			if l := n.C[0]; l.K == "bin" {
				rot := ast.Bin(string(l.S), l.C[0], ast.Bin(string(n.S), l.C[1], n.C[1]))
				if c06RefValue(rebuild(rot)) != base {
					found = true
					return
				}
			}
			if r := n.C[1]; r.K == "bin" {
				rot := ast.Bin(string(r.S), ast.Bin(string(n.S), n.C[0], r.C[0]), r.C[1])
				if c06RefValue(rebuild(rot)) != base {
					found = true
					return
				}
			}
		}
		for k := range n.C {
			k := k
			visit(n.C[k], func(repl *ast.Node) *ast.Node {
				cp := *n
				cp.C = append([]*ast.Node{}, n.C...)
				cp.C[k] = repl
				return rebuild(&cp)
			})
		}
	}
	visit(e, func(r *ast.Node) *ast.Node { return r })
	return found
}
