package props

import (
	"encoding/json"
	"fmt"
	"strings"
	"testing"

	"verif/harness/ast"
	"verif/harness/ev"
	"verif/harness/gen"
	"verif/harness/jsonx"
	"verif/harness/ref"
	"verif/harness/run"

	"pgregory.net/rapid"
)

// C04 — JSON written by -o and json() is valid and equal to the value it
// represents.

// ---- (a) documents through a non-modifying program --------------------------------------------

type C04Doc struct {
	Text ast.BS `json:"text"` // the input document as spelled
	Prog string `json:"prog"`
	Sel  string `json:"sel,omitempty"`
	CLI  bool   `json:"cli,omitempty"`
}

var c04Programs = []string{
	"{}", "{ print }", "", "{ x = $.a.b.c ; y = $[3] ; z = $.items[9].k }", "{ n = $.length() ; if ($ == null) { print 1 } }",
	"BEGINFILE { r = $ } ENDFILE { print r is object }", "{ for (k, v in $) { t = v } }", "$.a > 1 { c++ } END { print c }",
	// programs that assign, but only to variables of their own: loop variables and copies of scalars
	"{ for (v in $) { v = 7 } }", "{ for (k, v in $) { v = 0 ; k = \"z\" } }", "{ for (v in $) { v += 1 ; v = v * 2 } for (k, w in $) { w -= 1 ; w /= 2 } }",
	"{ x = $[0] ; x = 9 ; x++ ; y = $.a ; y += 1 ; y = \"s\" }", "{ for (v in $) { for (w in v) { w = 1 } } }",
}

func c04DocCheck(c *C04Doc) string {
	text := string(c.Text)
	want, err := jsonx.Parse(text)
	if err != nil {
		return "harness: generated text is not JSON: " + err.Error()
	}
	var sels []string
	if c.Sel != "" {
		sels = []string{c.Sel}
		// the selected sub-document is what -o writes
		switch c.Sel {
		case "$":
		case "$.a":
			if want.K == jsonx.Obj && want.Get("a") != nil {
				want = want.Get("a")
			} else if want.K == jsonx.Arr || want.K == jsonx.Str || want.K == jsonx.Num {
				return "" // a member of an array / string / number: methods and indexing rules of other properties
			} else {
				want = jsonx.VNull()
			}
		}
	}
	o := run.InProc(c.Prog, []run.InFile{{Name: "in", Data: []byte(text)}}, sels, run.Opts{Budget: implBudget, WantRoot: true})
	if o.Class == "panic" {
		return "panic: " + o.Panic
	}
	if o.Class != "ok" {
		return "" // the reader program failed at run time (e.g. comparing containers): nothing to serialise
	}
	if o.RootPanic != "" || o.RootErr != "" {
		return fmt.Sprintf("GetRootJson failed on an unmodified document: %s%s", o.RootPanic, o.RootErr)
	}
	got, err := jsonx.Parse(o.RootJSON)
	if err != nil {
		return fmt.Sprintf("-o output is not valid JSON (%v): %s", err, clip(o.RootJSON))
	}
	if !jsonx.Equal(got, want) {
		return fmt.Sprintf("-o output differs from the input as read\n input:  %s\n output: %s", clip(jsonx.Compact(want)), clip(jsonx.Compact(got)))
	}
	if c.CLI && run.CLIBinary() != "" {
		args := []string{"-o", "-"}
		if c.Sel != "" {
			args = append(args, "-r", c.Sel)
		}
		args = append(args, c.Prog, "in.json")
		res, err := run.CLI(run.CLIOpts{Args: args, Files: map[string][]byte{"in.json": []byte(text)}})
		if err == nil && !res.TimedOut {
			if res.Exit != 0 {
				return fmt.Sprintf("jqawk -o - exits with %d: %s", res.Exit, clip(string(res.Stderr)))
			}
			out := string(res.Stdout)
			if !strings.HasSuffix(out, o.RootJSON) || out[:len(out)-len(o.RootJSON)] != string(o.Stdout) {
				return fmt.Sprintf("jqawk -o - does not print the program's output followed by the library's JSON\n got: %s", clip(out))
			}
			args[1] = "out.json"
			// (the output file already exists and is longer than the new document)
			res2, err := run.CLI(run.CLIOpts{Args: args, Files: map[string][]byte{"in.json": []byte(text), "out.json": []byte(strings.Repeat("[\"an earlier, longer document\"]\n", 200))}, KeepDir: true})
			if err == nil && !res2.TimedOut {
				data, rerr := readFile(res2.Dir + "/out.json")
				res2.Cleanup()
				if rerr != nil || string(data) != o.RootJSON {
					return fmt.Sprintf("-o FILE wrote %q, -o - printed %q", clip(string(data)), clip(o.RootJSON))
				}
			}
		}
	}
	return ""
}

func c04Nontrivial(v *jsonx.Val, depth int) bool {
	switch v.K {
	case jsonx.Arr:
		if len(v.Items) == 0 && depth > 0 {
			return true
		}
		if depth >= 2 {
			return true
		}
		for _, it := range v.Items {
			if c04Nontrivial(it, depth+1) {
				return true
			}
		}
	case jsonx.Obj:
		if len(v.Members) == 0 && depth > 0 {
			return true
		}
		if depth >= 2 {
			return true
		}
		for _, m := range v.Members {
			if c04Nontrivial(m.Val, depth+1) {
				return true
			}
		}
	case jsonx.Str:
		for _, r := range v.S {
			if r < 0x20 || r == '"' || r == '\\' || r >= 0x80 {
				return true
			}
		}
	case jsonx.Num:
		return v.N != float64(int64(v.N)) || v.N > 9007199254740992 || v.N < -9007199254740992
	}
	return false
}

// ---- (b)-(d) json() of program-constructed values ---------------------------------------------------

type C04Val struct {
	Case *DCase `json:"case"`
	Kind string `json:"kind"` // "value" | "root"
	CLI  bool   `json:"cli,omitempty"` // a rejected root also goes through the binary with -o FILE
}

// c04ValCheck: the program prints json(root) as its only output (or makes root
// the document for -o). refjq computes the value; if it is cyclic or
// inexpressible the outcome must be an error, otherwise the text must parse
// back to it.
func c04ValCheck(c *C04Val) (msg string, cyclic bool, discard string) {
	src := c.Case.Source()
	defer inflight("C04", "value", c, src)()
	o := run.InProc(src, c.Case.inFiles(), nil, run.Opts{Budget: implBudget, WantRoot: c.Kind == "root"})
	rf, _ := c.Case.refFiles()
	rr := ref.Run(ref.Config{Prog: c.Case.Prog, Files: rf, Excl: excl})
	if o.Class == "panic" || o.Class == "other" || o.Class == "budget" {
		return fmt.Sprintf("outcome %s %s%s", o.Class, o.Panic, o.Msg), false, ""
	}
	switch rr.Class {
	case "unspecified":
		return "", false, rr.Reason
	case "known":
		return "", false, "known:" + rr.Reason
	}
	if c.Kind == "root" {
		if rr.Class != "ok" || rr.Root == nil {
			return "", false, "reference run did not finish"
		}
		if o.Class != "ok" {
			return fmt.Sprintf("outcome %s (%s), reference ok", o.Class, o.Msg), false, ""
		}
		want, ok := ref.ToJSON(*rr.Root)
		if o.RootPanic != "" {
			return "GetRootJson panicked: " + o.RootPanic, !ok, ""
		}
		if !ok {
			if o.RootErr == "" {
				return "a cyclic or inexpressible root was serialised: " + clip(o.RootJSON), true, ""
			}
			if c.CLI && run.CLIBinary() != "" {
				if m := c04RejectedThroughCLI(src, c.Case.inFiles()[0].Data); m != "" {
					return m, true, ""
				}
			}
			return "", true, ""
		}
		if o.RootErr != "" {
			return "GetRootJson rejected an expressible, acyclic value: " + o.RootErr + " (value " + clip(jsonx.Compact(want)) + ")", false, ""
		}
		got, err := jsonx.Parse(o.RootJSON)
		if err != nil {
			return fmt.Sprintf("-o output is not valid JSON (%v): %s", err, clip(o.RootJSON)), false, ""
		}
		if !jsonx.Equal(got, want) {
			return fmt.Sprintf("-o output differs from the value\n value:  %s\n output: %s", clip(jsonx.Compact(want)), clip(jsonx.Compact(got))), false, ""
		}
		return "", false, ""
	}
	// json(v) printed: the reference's json() marks cyclic / inexpressible values as runtime errors
	if rr.Class == "runtime" {
		if o.Class != "runtime" {
			return fmt.Sprintf("json() of a cyclic or inexpressible value: outcome %s, output %s", o.Class, clip(string(o.Stdout))), true, ""
		}
		if len(o.Stdout) != len(rr.Out) {
			return fmt.Sprintf("json() failed but wrote %q", clip(string(o.Stdout))), true, ""
		}
		return "", true, ""
	}
	if o.Class != "ok" {
		return fmt.Sprintf("json() of an expressible, acyclic value failed: %s (%s)", o.Class, o.Msg), false, ""
	}
	// (one json() text per print; a program may serialise the same container again after changing it)
	gots, err := c04ParseAll(string(o.Stdout))
	if err != nil {
		return fmt.Sprintf("json() returned invalid JSON (%v): %s", err, clip(string(o.Stdout))), false, ""
	}
	wants, err := c04ParseAll(string(rr.Out))
	if err != nil {
		return "harness: reference json is not JSON: " + err.Error(), false, ""
	}
	if len(gots) != len(wants) {
		return fmt.Sprintf("%d json() texts were printed, the reference prints %d", len(gots), len(wants)), false, ""
	}
	for k := range gots {
		if !jsonx.Equal(gots[k], wants[k]) {
			return fmt.Sprintf("json() text %d does not parse back to the value at that time\n value:  %s\n json(): %s", k+1, clip(jsonx.Compact(wants[k])), clip(jsonx.Compact(gots[k]))), false, ""
		}
	}
	return "", false, ""
}

// c04RejectedThroughCLI: the binary, asked to write a rejected root to a file, reports the
// error, and whatever the named file holds afterwards is not malformed output: the file is
// absent, or it holds a well-formed document (the one it held before). The same when -o
// names the input file itself.
func c04RejectedThroughCLI(src string, input []byte) string {
	earlier := "[\"an earlier document\"]\n"
	for _, mode := range []string{"fresh", "existing", "inplace"} {
		files := map[string][]byte{"in.json": input}
		out := "out.json"
		switch mode {
		case "existing":
			files["out.json"] = []byte(earlier)
		case "inplace":
			out = "in.json"
		}
		res, err := run.CLI(run.CLIOpts{Args: []string{"-o", out, src, "in.json"}, Files: files, KeepDir: true})
		if err != nil || res.TimedOut {
			if err == nil {
				res.Cleanup()
			}
			continue
		}
		data, rerr := readFile(res.Dir + "/" + out)
		res.Cleanup()
		if res.Exit == 0 || len(res.Stderr) == 0 {
			return fmt.Sprintf("jqawk -o %s with a root that cannot be serialised: exit status %d, stderr %q", out, res.Exit, clip(string(res.Stderr)))
		}
		if rerr != nil {
			continue // no file: nothing was written
		}
		if _, perr := jsonx.Parse(strings.TrimSpace(string(data))); perr != nil {
			return fmt.Sprintf("jqawk -o %s (%s file) reported the error but left the file holding %q, which is not a JSON document", out, mode, clip(string(data)))
		}
	}
	return ""
}

func c04ParseAll(text string) ([]*jsonx.Val, error) {
	var vals []*jsonx.Val
	for strings.TrimSpace(text) != "" {
		v, end, err := jsonx.ParsePrefix(text)
		if err != nil {
			return nil, err
		}
		vals = append(vals, v)
		text = text[end:]
	}
	return vals, nil
}

func genC04Val(t *rapid.T) (*C04Val, map[string]bool) {
	g := &c17Gen{t: t, labels: map[string]bool{}, safeStr: false, utf8: true}
	root := g.tree(4, nil)
	stmts := g.build()
	// more ways to construct values
	var rootExpr *ast.Node
	switch root.kind {
	case "scalar":
		rootExpr = root.lit.Clone()
		if rootExpr.K == "str" {
			rootExpr = ast.Str(rapid.SampledFrom([]string{"", "a\\nb", "tab\\t", "q\\\\", "é日😀", "</script>", " "}).Draw(t, "jsonstr"))
		}
	case "ref":
		rootExpr = ast.Id(nodeVar(root.ref))
	default:
		rootExpr = ast.Id(nodeVar(root.index))
	}
	switch rapid.IntRange(0, 9).Draw(t, "extra") {
	case 0:
		stmts = append(stmts, ast.ExprS(ast.Set(ast.Idx(ast.Mem(ast.Mem(ast.Id("auto"), "b"), "list"), ast.Num("2")), rootExpr)))
		rootExpr = ast.Id("auto")
		g.labels["auto-created"] = true
	case 1:
		stmts = append(stmts, ast.ExprS(ast.Set(ast.Id("pl"), ast.Method(ast.Obj(ast.KV("a", rootExpr), ast.KV("b", ast.Num("1"))), "pluck", ast.Str("a"), ast.Str("zz")))))
		rootExpr = ast.Id("pl")
		g.labels["plucked"] = true
	case 2:
		rootExpr = ast.Arr(rootExpr, ast.Arr(), ast.Obj(), ast.Mem(ast.Dollar(), "sub"))
		g.labels["with-document-subtree"] = true
	case 3:
		// inexpressible values
		rootExpr = rapid.SampledFrom([]*ast.Node{
			ast.Regex("a"), ast.Arr(ast.Regex("x")), ast.Obj(ast.KV("r", ast.Regex("y"))),
		}).Draw(t, "inexpr").Clone()
		g.labels["inexpressible"] = true
	}
	c := &C04Val{Kind: "value"}
	var body []*ast.Node
	body = append(body, stmts...)
	if rapid.IntRange(0, 3).Draw(t, "asroot") == 0 {
		c.Kind = "root"
		c.CLI = rapid.IntRange(0, 7).Draw(t, "rejectedcli") == 0
		body = append(body, ast.ExprS(ast.Set(ast.Dollar(), rootExpr)))
	} else {
		if rapid.IntRange(0, 3).Draw(t, "twojson") == 0 {
			// two results of json() alive in one statement: each is the text of its own value
			body = append(body, ast.Print(ast.Call(ast.Id("json"), rootExpr), ast.Call(ast.Id("json"), ast.Arr(ast.Num("1"), ast.Str("two"), ast.Obj(ast.KV("three", ast.Null()))))),
				ast.Print(ast.Call(ast.Id("json"), ast.Bin("==", ast.Call(ast.Id("json"), ast.Str("x")), ast.Call(ast.Id("json"), ast.Str("y"))))))
			g.labels["two-json-results-in-one-statement"] = true
		} else {
			body = append(body, ast.Print(ast.Call(ast.Id("json"), rootExpr)))
		}
		if rootExpr.K == "id" && (root.kind == "arr" || root.kind == "obj") && len(root.kids) > 0 && rapid.Bool().Draw(t, "again") {
			// the same container serialised again after a change that keeps its size
			var tgt *ast.Node
			if root.kind == "arr" {
				tgt = ast.Idx(rootExpr.Clone(), ast.Num("0"))
			} else {
				tgt = ast.Mem(rootExpr.Clone(), root.keys[0])
			}
			body = append(body, ast.ExprS(ast.Set(tgt, ast.Str("changed"))), ast.Print(ast.Call(ast.Id("json"), rootExpr.Clone())),
				ast.ExprS(ast.Set(tgt.Clone(), ast.Arr(ast.Num("1")))), ast.ExprS(ast.Method(tgt.Clone(), "push", ast.Num("2"))), ast.Print(ast.Call(ast.Id("json"), rootExpr.Clone())))
			g.labels["json-again-after-change"] = true
		}
	}
	c.Case = &DCase{Prog: ast.Prog(ast.Rule("pattern", nil, ast.Block(body...))),
		Files: []DFile{{Name: "in", Docs: []string{`{"sub":{"x":[],"y":{},"z":[1,{"k":null}]}}`}}}}
	return c, g.labels
}

// (d) non-finite numbers: a direct oracle (refjq does not model them)
func c04NonFinite(prog string) string {
	o := run.InProc(prog, []run.InFile{{Name: "in", Data: []byte("{}")}}, nil, run.Opts{Budget: implBudget, WantRoot: true})
	if o.Class == "panic" || o.Class == "other" {
		return fmt.Sprintf("outcome %s %s%s", o.Class, o.Panic, o.Msg)
	}
	if o.Class == "ok" {
		if len(o.Stdout) > 0 {
			if _, err := jsonx.Parse(string(o.Stdout)); err != nil {
				return fmt.Sprintf("json() of a non-finite number wrote text that is not JSON: %q", clip(string(o.Stdout)))
			}
			return fmt.Sprintf("json() of a non-finite number succeeded: %q", clip(string(o.Stdout)))
		}
		if o.RootPanic != "" {
			return "GetRootJson panicked: " + o.RootPanic
		}
		if o.RootErr == "" {
			return fmt.Sprintf("a root holding a non-finite number was serialised: %q", clip(o.RootJSON))
		}
		if run.CLIBinary() != "" {
			return c04RejectedThroughCLI(prog, []byte("{}"))
		}
	}
	return ""
}

func readFile(p string) ([]byte, error) { return osReadFile(p) }

func TestC04(t *testing.T) {
	rec := start(t, "C04", "exploration",
		"(a) documents: value trees to depth 4 (40 thorough) with empty arrays / objects forced at every depth in a third of the cases, every string class (escapes, control characters, non-BMP, surrogate pairs written as \\u escapes), every finite double, duplicate keys, spelled with random legal whitespace / escape / number spellings, processed by a non-modifying program (8 readers incl. reads of missing paths) with 0-1 selector; GetRootJson must be accepted by the harness's own strict RFC 8259 recogniser and parse to a value equal (objects order-free, numbers as doubles, last duplicate wins) to the input as read; a sample goes through the binary with -o - and -o FILE. (b) json(e) / $ = e for program-constructed values (literals, auto-created containers, pluck results, document sub-trees, shared sub-structures): the text parses back to refjq's value. (c) cyclic values of every shape -> RuntimeError for json(), error for -o, nothing serialised. (d) regex, function, +-Inf, NaN -> error, never malformed output. Non-trivial: an empty container below the root, a string needing an escape or non-ASCII, a non-integer or > 2^53 number, depth >= 3, cyclic or inexpressible. distinct = distinct case.")
	defer rec.Finish()
	rec.Assume("the harness's strict JSON recogniser and order-free comparison (package jsonx, independent of encoding/json); math/big for decimal -> double")
	rec.Replayer("document", func(raw json.RawMessage) error {
		var c C04Doc
		if err := json.Unmarshal(raw, &c); err != nil {
			return err
		}
		if m := c04DocCheck(&c); m != "" {
			return fmt.Errorf("%s\ninput: %s\nprogram: %s", m, clip(string(c.Text)), c.Prog)
		}
		return nil
	})
	rec.Replayer("value", func(raw json.RawMessage) error {
		var c C04Val
		if err := json.Unmarshal(raw, &c); err != nil {
			return err
		}
		if m, _, _ := c04ValCheck(&c); m != "" {
			return fmt.Errorf("%s\nprogram:\n%s", m, c.Case.Source())
		}
		return nil
	})
	rec.Replayer("nonfinite", func(raw json.RawMessage) error {
		var p string
		if err := json.Unmarshal(raw, &p); err != nil {
			return err
		}
		if m := c04NonFinite(p); m != "" {
			return fmt.Errorf("%s\nprogram: %s", m, p)
		}
		return nil
	})
	if rec.ReplayOnly() {
		return
	}
	excl.ArrayAlias = rec.KnownActive("KF-array-alias", false)
	rec.ReplayTier()

	// documents at the decoder's nesting boundary: whatever can be read can be written back
	// (-o and json()), whether the innermost container is empty or not
	if sh, _ := ev.Shard(); sh == 0 {
		type deepDoc struct {
			Depth int    `json:"depth"`
			Inner string `json:"inner"`
			Shape string `json:"shape"`
		}
		// (the indented text of a document nested 10000 deep has 10^8 bytes: three documents)
		for _, depth := range []int{100, 2000, 10000} {
			for _, inner := range []string{"", "1", "[],{}"} {
				if depth == 10000 && inner == "[],{}" {
					continue
				}
				for _, shape := range []string{"arrays", "objects"} {
					if depth == 10000 && shape == "objects" && inner != "1" {
						continue
					}
					var doc string
					if shape == "arrays" {
						doc = strings.Repeat("[", depth) + inner + strings.Repeat("]", depth)
					} else {
						in := inner
						if in == "" || in == "[],{}" {
							in = "{}"
						}
						doc = strings.Repeat("{\"a\":", depth) + in + strings.Repeat("}", depth)
					}
					c := deepDoc{depth, inner, shape}
					rec.Case(fmt.Sprintf("deep %d %q %s", depth, inner, shape), depth >= 9999, "nesting-boundary")
					o := run.InProc("{ j = json($) } END { print j.length() > 0 }", []run.InFile{{Name: "in", Data: []byte(doc)}}, nil, run.Opts{Budget: 100_000_000, WantRoot: true})
					if o.Class == "json" {
						continue // the decoder refuses it: nothing to write back (C20's subject)
					}
					msg := ""
					if o.Class != "ok" || string(o.Stdout) != "true\n" {
						msg = fmt.Sprintf("json() of a document that was read: outcome %s (%s) %q", o.Class, o.Msg, clip(string(o.Stdout)))
					} else if o.RootErr != "" || o.RootPanic != "" {
						msg = "-o of an unmodified document that was read: " + o.RootErr + o.RootPanic
					} else if want, err := jsonx.Parse(doc); err == nil {
						if got, err := jsonx.Parse(o.RootJSON); err != nil || !jsonx.Equal(got, want) {
							msg = fmt.Sprintf("-o output does not parse back to the document (%v)", err)
						}
					}
					if msg != "" {
						rec.Violation("deep-document", c, "{ j = json($) }", fmt.Sprintf("%s nested %d deep around %q: %s", shape, depth, inner, msg))
					}
				}
			}
		}
	}

	maxDepth := 4
	if evThorough() {
		maxDepth = 12
	}
	cliEvery := 50
	check(rec, "document-random", scale(10000, 3000000), func(rt *rapid.T) {
		o := gen.DocOpts{Depth: rapid.IntRange(0, maxDepth).Draw(rt, "depth"), MaxItems: 4, AnyKeys: true,
			ForceEmpty: rapid.IntRange(0, 2).Draw(rt, "forceempty") == 0}
		doc := gen.JSONDoc(o).Draw(rt, "doc")
		if rapid.IntRange(0, 5).Draw(rt, "dup") == 0 && doc.K == jsonx.Obj && len(doc.Members) > 0 {
			// a duplicate key: the last one wins
			doc.Members = append(doc.Members, jsonx.Member{Key: doc.Members[0].Key, Val: gen.JSONScalar(o).Draw(rt, "dupval")})
		}
		c := &C04Doc{Text: ast.BS(gen.Fancy(rt, doc)), Prog: rapid.SampledFrom(c04Programs).Draw(rt, "prog"),
			Sel: rapid.SampledFrom([]string{"", "", "", "$", "$.a"}).Draw(rt, "sel"),
			CLI: rapid.IntRange(0, cliEvery-1).Draw(rt, "cli") == 0}
		msg := c04DocCheck(c)
		labels := []string{"document"}
		if c.CLI {
			labels = append(labels, "through-binary")
		}
		if c.Sel != "" {
			labels = append(labels, "selector")
		}
		rec.Case(string(c.Text)+"\x00"+c.Prog+c.Sel, c04Nontrivial(doc, 0), labels...)
		rec.Sample(func() interface{} {
			return map[string]interface{}{"input": clip(string(c.Text)), "program": c.Prog, "selector": c.Sel}
		})
		if msg != "" {
			rec.Pending("document", c, c.Prog, msg)
			rt.Fatalf("%s\ninput: %s", msg, clip(string(c.Text)))
		}
	})

	check(rec, "value-random", scale(6000, 1500000), func(rt *rapid.T) {
		c, labels := genC04Val(rt)
		msg, cyclic, discard := c04ValCheck(c)
		if discard != "" {
			rec.Discard(discard)
			return
		}
		var ls []string
		for l := range labels {
			ls = append(ls, l)
		}
		if cyclic {
			ls = append(ls, "rejected-cyclic-or-inexpressible")
		}
		rec.Case(c.Case.Source(), true, append(ls, "kind-"+c.Kind)...)
		rec.Sample(func() interface{} { return c.Case.describe() })
		if msg != "" {
			rec.Pending("value", c, c.Case.Source(), msg)
			rt.Fatalf("%s\n%s", msg, c.Case.Source())
		}
	})

	for _, p := range []string{
		`{ print json(num("1e308") * 10) }`, `{ print json(0 - num("1e308") * 10) }`, `{ x = num("1e308") * 10 ; print json([1, x - x]) }`,
		`{ $ = num("1e308") * 10 }`, `{ $.k = [0 - num("1e308") * 10] }`, `{ x = num("1e308") * 10 ; $ = {a: x - x} }`,
	} {
		msg := c04NonFinite(p)
		rec.Case(p, true, "non-finite")
		if msg != "" {
			rec.Violation("nonfinite", p, p, msg)
		}
	}
}
