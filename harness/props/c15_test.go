package props

import (
	"fmt"
	"strings"
	"testing"

	"verif/harness/ast"
	"verif/harness/ref"

	"pgregory.net/rapid"
)

// C15 — array methods behave like an ideal list under every sequence of
// operations (DESIGN.md 4.8; refjq's list model, results and contents after
// every step).

type c15Gen struct {
	t      *rapid.T
	labels map[string]bool
	stmts  []*ast.Node
	step   int
	last   map[string]string // last length-changing op per array, for the popfirst->push label
}

func (g *c15Gen) n(lo, hi int, l string) int { return rapid.IntRange(lo, hi).Draw(g.t, l) }
func (g *c15Gen) b(l string) bool           { return rapid.Bool().Draw(g.t, l) }

// the arrays, each reached through the name or path that holds it
type c15Arr struct {
	name string
	expr func() *ast.Node
}

var c15Arrays = []c15Arr{
	{"a", func() *ast.Node { return ast.Id("a") }},
	{"b", func() *ast.Node { return ast.Id("b") }},
	{"c", func() *ast.Node { return ast.Id("c") }},
	{"$.list", func() *ast.Node { return ast.Mem(ast.Dollar(), "list") }},
	{"o.items", func() *ast.Node { return ast.Mem(ast.Id("o"), "items") }},
	// two arrays that are empty in the document: each is a list of its own
	{"$.e1", func() *ast.Node { return ast.Mem(ast.Dollar(), "e1") }},
	{"$.e2", func() *ast.Node { return ast.Mem(ast.Dollar(), "e2") }},
}

func (g *c15Gen) program(extra ...*ast.Node) *DCase {
	stmts := append(append([]*ast.Node{}, g.stmts...), extra...)
	return &DCase{
		Prog: ast.Prog(ast.Func("mk", nil, ast.Block(ast.Return(ast.Arr(ast.Num("7"), ast.Str("8"), ast.Num("9"))))),
			ast.Func("size", []string{"sz"}, ast.Block(ast.Return(ast.Method(ast.Id("sz"), "length")))),
			ast.Rule("pattern", nil, ast.Block(stmts...))),
		Files: []DFile{{Name: "in", Docs: []string{`{"list":[3,1,2],"e1":[],"e2":[]}`}}},
	}
}

func (g *c15Gen) state(extra ...*ast.Node) ref.Result {
	c := g.program(extra...)
	rf, _ := c.refFiles()
	return ref.Run(ref.Config{Prog: c.Prog, Files: rf, Excl: excl})
}

func (g *c15Gen) elem() *ast.Node {
	// element values of every kind; 0 and -0 together, 1 and "1" together for sort ties
	return rapid.SampledFrom([]*ast.Node{
		ast.Num("0"), ast.Un("-", ast.Num("0")), ast.Num("1"), ast.Str("1"), ast.Num("2"), ast.Num("10"), ast.Str("10"), ast.Str("9"),
		ast.Str("b"), ast.Str("B"), ast.Str(""), ast.True(), ast.False(), ast.Null(), ast.Num("2.5"), ast.Un("-", ast.Num("3")),
		ast.Arr(ast.Num("1")), ast.Obj(ast.KV("k", ast.Num("1"))), ast.Arr(),
	}).Draw(g.t, "elem").Clone()
}

func (g *c15Gen) scalarElem() *ast.Node {
	return rapid.SampledFrom([]*ast.Node{
		ast.Num("0"), ast.Num("1"), ast.Str("1"), ast.Num("2"), ast.Str("b"), ast.Null(), ast.True(), ast.Num("10"), ast.Str("9"),
	}).Draw(g.t, "selem").Clone()
}

func (g *c15Gen) pickArr(l string) c15Arr { return c15Arrays[g.n(0, len(c15Arrays)-1, l)] }

func arrLen(st ref.Result, a c15Arr) int {
	var v ref.V
	switch a.name {
	case "$.list", "$.e1", "$.e2":
		if st.Dollar != nil && st.Dollar.K == ref.KObj {
			if l := st.Dollar.O.Get(a.name[2:]); l != nil {
				v = l.V
			}
		}
	case "o.items":
		if o := st.Globals["o"]; o.K == ref.KObj {
			if l := o.O.Get("items"); l != nil {
				v = l.V
			}
		}
	default:
		v = st.Globals[a.name]
	}
	if v.K == ref.KArr {
		return len(v.A.E)
	}
	return 0
}

func (g *c15Gen) index(n int) *ast.Node {
	cls := g.n(0, 9, "icls")
	var idx int
	switch {
	case cls <= 3 && n > 0:
		idx = g.n(0, n-1, "iin")
	case cls <= 6 && n > 0:
		idx = -g.n(1, n, "ineg")
		g.labels["negative-index"] = true
	case cls == 7:
		idx = n
	case cls == 8:
		idx = -(n + 1)
		g.labels["index-before-start"] = true
	default:
		idx = n + 1
	}
	if idx < 0 {
		return ast.Un("-", ast.Num(fmt.Sprint(-idx)))
	}
	return ast.Num(fmt.Sprint(idx))
}

func (g *c15Gen) dump() *ast.Node {
	args := []*ast.Node{ast.Str(fmt.Sprintf("D%d", g.step))}
	for _, a := range c15Arrays {
		args = append(args, a.expr(), ast.Method(a.expr(), "length"))
	}
	return ast.Print(args...)
}

func (g *c15Gen) action() bool {
	st := g.state()
	if st.Class != "ok" {
		return false
	}
	a := g.pickArr("arr")
	n := arrLen(st, a)
	var stmts []*ast.Node
	label := ""
	res := func(e *ast.Node) { stmts = append(stmts, ast.Print(ast.Str("R"), e)) }
	switch k := g.n(0, 28, "op"); {
	case k == 28:
		// the receiver is an element of an array that a call nested in the argument changes:
		// the method acts on the array that the receiver named when the call began
		mm := func() *ast.Node { return ast.Id("mm") }
		stmts = append(stmts, ast.ExprS(ast.Set(mm(), ast.Arr(ast.Arr(ast.Num("1")), ast.Arr(ast.Num("2"), ast.Num("2")), ast.Arr(ast.Num("3"))))), ast.ExprS(ast.Set(ast.Id("keep"), ast.Idx(mm(), ast.Num("0")))))
		switch g.n(0, 2, "recvform") {
		case 0:
			stmts = append(stmts, ast.ExprS(ast.Method(ast.Idx(mm(), ast.Num("0")), "push", ast.Method(ast.Method(mm(), "popfirst"), "length"))))
		case 1:
			stmts = append(stmts, ast.ExprS(ast.Method(ast.Idx(mm(), ast.Un("-", ast.Num("1"))), "push", ast.Method(ast.Method(mm(), "pop"), "length"))))
		default:
			stmts = append(stmts, ast.Print(ast.Str("R"), ast.Method(ast.Idx(mm(), ast.Num("1")), "contains", ast.Method(ast.Method(mm(), "popfirst"), "length"))))
		}
		stmts = append(stmts, ast.Print(ast.Str("MM"), mm(), ast.Id("keep")))
		label = "receiver-is-an-element-the-argument-moves"
	case k == 27:
		// the same array stored twice in another one (pushed, and written to an index): it is
		// shown twice, in full - shared is not circular
		b := g.pickArr("shared")
		if b.name == a.name {
			return true
		}
		stmts = append(stmts, ast.ExprS(ast.Method(ast.Method(a.expr(), "push", b.expr()), "push", b.expr())), ast.ExprS(ast.Set(ast.Idx(a.expr(), ast.Num("0")), b.expr())))
		label = "same-array-stored-twice"
		g.last[a.name] = ""
	case k == 26:
		// a fresh array from a literal that is evaluated again and again (inside mk): every
		// evaluation makes a list of its own, whatever happened to the earlier ones
		nm := rapid.SampledFrom([]string{"a", "b", "c"}).Draw(g.t, "remake")
		stmts = append(stmts, ast.ExprS(ast.Set(ast.Id(nm), ast.Call(ast.Id("mk")))))
		label = "fresh-array-from-a-reused-literal"
		g.last[nm] = ""
	case k <= 3:
		stmts = append(stmts, ast.ExprS(ast.Method(a.expr(), "push", g.elem())))
		label = "push"
		if g.last[a.name] == "popfirst" {
			g.labels["popfirst-then-push"] = true
		}
		g.last[a.name] = "push"
	case k <= 5:
		res(ast.Method(a.expr(), "pop"))
		label = "pop"
		g.last[a.name] = "pop"
	case k <= 7:
		res(ast.Method(a.expr(), "popfirst"))
		label = "popfirst"
		g.last[a.name] = "popfirst"
	case k <= 9:
		res(ast.Idx(a.expr(), g.index(n)))
		label = "index-read"
	case k <= 11:
		stmts = append(stmts, ast.ExprS(ast.Set(ast.Idx(a.expr(), g.index(n)), g.elem())))
		label = "index-write"
	case k == 12:
		res(ast.Method(a.expr(), "length"))
		if g.b("lengthsite") {
			// one length() site that sees a string, an object and then the array
			res(ast.Arr(ast.Call(ast.Id("size"), ast.Str("abc")), ast.Call(ast.Id("size"), ast.Obj(ast.KV("k", ast.Num("1")))), ast.Call(ast.Id("size"), a.expr())))
		}
		label = "length"
	case k <= 14:
		if g.n(0, 7, "unsetneedle") == 0 {
			// a variable that was never assigned: == is false against every element
			res(ast.Method(a.expr(), "contains", ast.Id("neverset")))
			g.labels["contains-unset-needle"] = true
		} else {
			res(ast.Method(a.expr(), "contains", g.elem()))
		}
		label = "contains"
	case k <= 16:
		res(ast.Method(a.expr(), "sort"))
		label = "sort"
	case k == 22:
		// push a value read from a place that does not exist (past the end of another
		// array, an absent key): the new element is an ordinary null of this array
		b := g.pickArr("arrmiss")
		var miss *ast.Node
		if g.b("misskey") {
			miss = ast.Mem(ast.Id("o"), "nokey")
		} else {
			miss = ast.Idx(b.expr(), ast.Num(fmt.Sprint(arrLen(st, b)+g.n(0, 3, "beyond"))))
		}
		stmts = append(stmts, ast.ExprS(ast.Method(a.expr(), "push", miss)))
		if g.b("thenwrite") {
			stmts = append(stmts, ast.ExprS(ast.Set(ast.Idx(a.expr(), ast.Un("-", ast.Num("1"))), g.scalarElem())))
		}
		label = "push-missing-read"
		g.last[a.name] = "push"
	case k == 24:
		// a store two or more places past the end pads with nulls: each padded place is an
		// element of its own
		gap := g.n(2, 4, "padgap")
		stmts = append(stmts, ast.ExprS(ast.Set(ast.Idx(a.expr(), ast.Num(fmt.Sprint(n+gap))), g.scalarElem())),
			ast.ExprS(ast.Set(ast.Idx(a.expr(), ast.Num(fmt.Sprint(n+g.n(0, gap-1, "padwhich")))), g.scalarElem())))
		if g.b("padpush") {
			stmts = append(stmts, ast.ExprS(ast.Post("++", ast.Idx(a.expr(), ast.Num(fmt.Sprint(n))))))
		}
		label = "pad-then-store"
		g.last[a.name] = ""
	case k == 23:
		// sort returns a copy: stores into the copy and into the original stay apart
		stmts = append(stmts, ast.ExprS(ast.Set(ast.Id("sv"), ast.Method(a.expr(), "sort"))))
		if n > 0 {
			stmts = append(stmts, ast.ExprS(ast.Set(ast.Idx(ast.Id("sv"), g.index(n)), g.scalarElem())))
			if g.b("alsoorig") {
				stmts = append(stmts, ast.ExprS(ast.Set(ast.Idx(a.expr(), g.index(n)), g.scalarElem())))
			}
		} else {
			stmts = append(stmts, ast.ExprS(ast.Method(ast.Id("sv"), "push", g.scalarElem())))
		}
		stmts = append(stmts, ast.Print(ast.Str("SV"), ast.Id("sv"), ast.Method(ast.Id("sv"), "length")))
		label = "sort-then-store"
	case k == 17:
		// push returns the array (not a copy, not a view): use the result without storing it
		// anywhere else, or change its length again through it
		switch g.n(0, 3, "pushresult") {
		case 0:
			res(ast.Method(ast.Method(a.expr(), "push", g.scalarElem()), "length"))
		case 1:
			stmts = append(stmts, ast.ExprS(ast.Method(ast.Method(a.expr(), "push", g.scalarElem()), "push", g.scalarElem())))
		case 2:
			res(ast.Method(ast.Method(a.expr(), "push", g.scalarElem()), rapid.SampledFrom([]string{"pop", "popfirst"}).Draw(g.t, "chainop")))
		default:
			stmts = append(stmts, ast.ExprS(ast.Set(ast.Id("pr"), ast.Method(a.expr(), "push", g.scalarElem()))), ast.ExprS(ast.Method(ast.Id("pr"), "push", g.scalarElem())),
				ast.ExprS(ast.Method(a.expr(), "push", g.scalarElem())), ast.Print(ast.Str("PR"), ast.Id("pr")))
		}
		g.last[a.name] = ""
		label = "push-result"
	default:
		// nested calls: the receiver of the outer call must survive the inner one
		b := g.pickArr("arr2")
		if b.name != a.name {
			g.labels["nested-two-arrays"] = true
		}
		switch g.n(0, 5, "nest") {
		case 0:
			stmts = append(stmts, ast.ExprS(ast.Method(a.expr(), "push", ast.Method(b.expr(), "pop"))))
		case 1:
			stmts = append(stmts, ast.ExprS(ast.Method(a.expr(), "push", ast.Method(b.expr(), "length"))))
		case 2:
			res(ast.Method(a.expr(), "contains", ast.Method(b.expr(), "popfirst")))
		case 3:
			stmts = append(stmts, ast.ExprS(ast.Method(a.expr(), "push", ast.Method(a.expr(), "pop"))))
		case 4:
			stmts = append(stmts, ast.ExprS(ast.Method(a.expr(), "push", ast.Method(ast.Method(b.expr(), "push", ast.Num("1")), "length"))))
		default:
			res(ast.Idx(a.expr(), ast.Method(b.expr(), "length")))
		}
		label = "nested-call"
		g.last[a.name], g.last[b.name] = "", ""
	}
	probe := g.state(stmts...)
	switch probe.Class {
	case "unspecified":
		g.labels["dropped-unspecified"] = true
		return true
	case "known":
		g.labels["dropped-known:"+probe.Reason] = true
		return true
	}
	g.step++
	g.labels["action:"+label] = true
	g.stmts = append(g.stmts, stmts...)
	if probe.Class == "runtime" {
		g.labels["ends-in-runtime-error"] = true
		return false
	}
	g.stmts = append(g.stmts, g.dump())
	return true
}

func genC15(t *rapid.T, maxActions int) (*DCase, map[string]bool, int) {
	g := &c15Gen{t: t, labels: map[string]bool{}, last: map[string]string{}}
	set := func(n string, v *ast.Node) *ast.Node { return ast.ExprS(ast.Set(ast.Id(n), v)) }
	g.stmts = []*ast.Node{
		set("a", ast.Arr()),
		set("b", ast.Arr(ast.Num("1"), ast.Num("2"))),
		set("c", ast.Arr(ast.Str("b"), ast.Num("10"), ast.Str("9"), ast.Num("1"))),
		set("o", ast.Obj(ast.KV("items", ast.Arr(ast.Num("5"))))),
	}
	g.stmts = append(g.stmts, g.dump())
	n := rapid.IntRange(1, maxActions).Draw(t, "nactions")
	for k := 0; k < n; k++ {
		if !g.action() {
			break
		}
	}
	return g.program(), g.labels, g.step
}

// genC15Sort: one long array with many ties (elements whose string forms are
// equal but which are distinguishable), sorted once: stability only matters
// beyond the sizes the state machine reaches.
func genC15Sort(t *rapid.T) *DCase {
	n := rapid.IntRange(2, 48).Draw(t, "len")
	pool := []*ast.Node{
		ast.True(), ast.False(), ast.Null(), ast.Arr(), ast.Obj(), ast.Arr(ast.Num("1")), ast.Obj(ast.KV("k", ast.Num("1"))), ast.Str(""),
		ast.Num("1"), ast.Str("1"), ast.Num("10"), ast.Str("10"), ast.Num("2"), ast.Str("2"), ast.Str("b"), ast.Str("B"), ast.Num("0"), ast.Un("-", ast.Num("0")),
		ast.Num("2.5"), ast.Str("2.5"), ast.Str("a"),
	}
	allNum := rapid.IntRange(0, 3).Draw(t, "allnum") == 0
	var items []*ast.Node
	for k := 0; k < n; k++ {
		if allNum {
			items = append(items, rapid.SampledFrom([]*ast.Node{ast.Num("0"), ast.Un("-", ast.Num("0")), ast.Num("1"), ast.Num("2"), ast.Num("1.0"), ast.Num("10"), ast.Un("-", ast.Num("3"))}).Draw(t, "num").Clone())
		} else {
			items = append(items, rapid.SampledFrom(pool).Draw(t, "item").Clone())
		}
	}
	set := func(n string, v *ast.Node) *ast.Node { return ast.ExprS(ast.Set(ast.Id(n), v)) }
	return &DCase{Prog: ast.Prog(ast.Rule("BEGIN", nil, ast.Block(
		set("a", ast.Arr(items...)),
		ast.Print(ast.Method(ast.Id("a"), "sort")),
		ast.Print(ast.Id("a"), ast.Method(ast.Id("a"), "length")),
		ast.Print(ast.Method(ast.Method(ast.Id("a"), "sort"), "sort")),
	)))}
}

// genC15Long: an array of 0-300 elements (pushed, or taken from the document) that is
// also held by a second variable, an object member and (when it is the root) the rule
// driver; phases of 1-200 pushes / pops / popfirsts / stores through one of the
// references, each followed by a look at the array through every reference.
func genC15Long(t *rapid.T) *DCase {
	n := rapid.SampledFrom([]int{0, 1, 15, 16, 17, 31, 32, 33, 63, 64, 65, 100, 127, 128, 129, 200, 257, 300}).Draw(t, "n0")
	sv, tv := ast.Id("s"), ast.Id("t")
	ok := func() *ast.Node { return ast.Mem(ast.Id("o"), "k") }
	refs := []func() *ast.Node{func() *ast.Node { return sv.Clone() }, func() *ast.Node { return tv.Clone() }, ok}
	num := func(k int) *ast.Node { return ast.Num(fmt.Sprint(k)) }
	length := func(e *ast.Node) *ast.Node { return ast.Method(e, "length") }
	look := ast.Func("look", []string{"tag"}, ast.Block(ast.Print(ast.Id("tag"), length(sv.Clone()), length(tv.Clone()), length(ok()),
		ast.Idx(sv.Clone(), num(0)), ast.Idx(tv.Clone(), ast.Un("-", num(1))), ast.Idx(ok(), num(1)), length(ast.Mem(ast.Dollar(), "big")))))
	loop := func(cnt int, body *ast.Node) *ast.Node {
		return ast.For(ast.Set(ast.Id("j"), num(0)), ast.Bin("<", ast.Id("j"), num(cnt)), ast.Post("++", ast.Id("j")), ast.Block(ast.ExprS(body)))
	}
	var items []string
	for i := 0; i < n; i++ {
		items = append(items, fmt.Sprint(i))
	}
	doc := `{"big":[` + strings.Join(items, ",") + `]}`
	var stmts []*ast.Node
	if rapid.Bool().Draw(t, "fromdoc") {
		stmts = append(stmts, ast.ExprS(ast.Set(sv.Clone(), ast.Mem(ast.Dollar(), "big"))))
	} else {
		stmts = append(stmts, ast.ExprS(ast.Set(sv.Clone(), ast.Arr())),
			ast.For(ast.Set(ast.Id("i"), num(0)), ast.Bin("<", ast.Id("i"), num(n)), ast.Post("++", ast.Id("i")), ast.Block(ast.ExprS(ast.Method(sv.Clone(), "push", ast.Id("i"))))))
	}
	call := func(tag string) *ast.Node { return ast.ExprS(ast.Set(ast.Id("lk"), ast.Call(ast.Id("look"), ast.Str(tag)))) }
	stmts = append(stmts, ast.ExprS(ast.Set(tv.Clone(), sv.Clone())), ast.ExprS(ast.Set(ast.Id("o"), ast.Obj(ast.KV("k", sv.Clone())))), call("L0"))
	phases := rapid.IntRange(2, 7).Draw(t, "phases")
	for p := 1; p <= phases; p++ {
		r := refs[rapid.IntRange(0, len(refs)-1).Draw(t, "ref")]
		cnt := rapid.SampledFrom([]int{1, 2, 3, 15, 16, 17, 33, 48, 49, 64, 65, 100, 150, 200}).Draw(t, "count")
		switch rapid.IntRange(0, 5).Draw(t, "phaseop") {
		case 0, 1:
			stmts = append(stmts, loop(cnt, ast.Method(r(), "pop")))
		case 2:
			stmts = append(stmts, loop(cnt, ast.Method(r(), "popfirst")))
		case 3, 4:
			stmts = append(stmts, loop(cnt, ast.Method(r(), "push", ast.Bin("+", ast.Str(fmt.Sprintf("p%d-", p)), ast.Id("j")))))
		default:
			stmts = append(stmts, ast.If(ast.Bin(">", length(r()), num(0)), ast.Block(ast.ExprS(ast.Set(ast.Idx(r(), num(0)), ast.Str(fmt.Sprintf("w%d", p)))))),
				ast.ExprS(ast.Set(ast.Idx(r(), ast.Bin("+", length(r()), num(cnt%5))), ast.Str(fmt.Sprintf("e%d", p)))))
		}
		stmts = append(stmts, call(fmt.Sprintf("L%d", p)))
	}
	stmts = append(stmts, ast.Print(ast.Str("S"), sv.Clone()))
	return &DCase{Prog: ast.Prog(look, ast.Rule("pattern", nil, ast.Block(stmts...))), Files: []DFile{{Name: "in", Docs: []string{doc}}}}
}

func TestC15(t *testing.T) {
	rec := start(t, "C15", "exploration",
		"state machine over five arrays (three global variables, $.list inside the document, o.items inside an object), one operation per step reached through the name or path that holds the array: push, pop, popfirst, index read and write (in range, = len, negative in range, before the start, past the end), length, contains, sort, use of push's result, a push of a value read from a place that does not exist followed by a write to that element, and nested calls (a.push(b.pop()), a.push(b.length()), a.contains(b.popfirst()), a.push(a.pop()), a.push(b.push(1).length()), a[b.length()]) with element values of every kind (0 and -0, 1 and \"1\", containers). Every step prints its result and then every array with its length; expected from refjq's list model. A second family sorts arrays of up to 48 elements drawn from a pool full of ties (true / false / null / [] / {} all have the string form \"\"; 1 and \"1\"; 0 and -0). Non-trivial: popfirst followed by push on the same array, a nested call touching two arrays, a sort with ties, a negative index, or >= 8 actions. distinct = distinct program.")
	defer rec.Finish()
	rec.Assume("refjq's list model (DESIGN.md 4.8): contains = section 3.6 element by element; sort = stable, numeric iff all numbers, else bytewise by string form")
	rec.Replayer("list", replayDiff(true))
	if rec.ReplayOnly() {
		return
	}
	excl.ArrayAlias = rec.KnownActive("KF-array-alias", false)
	rec.ReplayTier()
	maxActions := 20
	if evThorough() {
		maxActions = 60
	}
	// long arrays held by several references: growth and shrinking across every size
	// class of the underlying storage, operated through alternating references
	check(rec, "long-shared", scale(1500, 400000), func(rt *rapid.T) {
		c := genC15Long(rt)
		runDiff(rec, rt, "list", c, false, nil, "long-shared")
	})
	check(rec, "sort-long-ties", scale(3000, 2000000), func(rt *rapid.T) {
		c := genC15Sort(rt)
		runDiff(rec, rt, "list", c, false, func(d *diffResult) bool { return d.Ref.Events["sort-ties"] > 0 }, "sort-long")
	})
	check(rec, "list-random", scale(6000, 1200000), func(rt *rapid.T) {
		c, labels, steps := genC15(rt, maxActions)
		var ls []string
		for l := range labels {
			ls = append(ls, l)
		}
		runDiff(rec, rt, "list", c, true, func(d *diffResult) bool {
			return labels["popfirst-then-push"] || labels["nested-two-arrays"] || d.Ref.Events["sort-ties"] > 0 || labels["negative-index"] || steps >= 8
		}, ls...)
	})
}
