package props

import (
	"encoding/json"
	"fmt"
	"strings"
	"sync"
	"testing"
	"time"

	"verif/harness/run"

	"pgregory.net/rapid"
)

// C20 — unbounded single steps are refused with an error, not by exhausting
// the process. Boundary programs run through the binary in an isolated
// subprocess (rusage collected); cheap points near each limit also in-process.

type C20Case struct {
	Family string `json:"family"` // recursion | index | width | nesting
	Shape  string `json:"shape"`
	N      string `json:"n"` // the magnitude, as it is spelled in the program / used to build the input
}

const rssCeilingKB = 1 << 20 // 1 GiB

var c20RecShapes = []string{"direct", "mutual2", "mutual3", "match-expr", "match-block", "method-arg", "forin-body", "nested-statements", "heavy-expression", "repeated", "repeated-per-value", "runaway", "runaway-mutual", "runaway-match", "runaway-heavy-binary", "runaway-heavy-unary", "runaway-heavy-statements", "runaway-match-odd", "runaway-match-block-odd"}

func c20Program(c *C20Case) (prog string, input string, expect string) {
	n := c.N
	switch c.Family {
	case "recursion":
		pre := "BEGIN { print \"pre\"\n"
		switch c.Shape {
		case "direct":
			return "function f(n) { if (n <= 0) { return 0 }\nreturn 1 + f(n - 1) }\n" + pre + "print f(" + n + ") }", "", n
		case "mutual2":
			return "function f(n) { if (n <= 0) { return 0 }\nreturn 1 + g(n - 1) }\nfunction g(n) { if (n <= 0) { return 0 }\nreturn 1 + f(n - 1) }\n" + pre + "print f(" + n + ") }", "", n
		case "mutual3":
			return "function f(n) { if (n <= 0) { return 0 }\nreturn 1 + g(n - 1) }\nfunction g(n) { if (n <= 0) { return 0 }\nreturn 1 + h(n - 1) }\nfunction h(n) { if (n <= 0) { return 0 }\nreturn 1 + f(n - 1) }\n" + pre + "print f(" + n + ") }", "", n
		case "match-expr":
			return "function f(n) { return match (n) { 0 => 0, k => 1 + f(k - 1) } }\n" + pre + "print f(" + n + ") }", "", n
		case "match-block":
			return "function f(n) { match (n) { 0 => { return 0 }, k => { return 1 + f(k - 1) } } }\n" + pre + "print f(" + n + ") }", "", n
		case "method-arg":
			return "function f(n) { if (n <= 0) { return 0 }\nreturn 1 + [].push(f(n - 1)).pop() }\n" + pre + "print f(" + n + ") }", "", n
		case "forin-body":
			return "function f(n, r) { if (n <= 0) { return 0 }\nfor (x in [1]) { r = f(n - 1, 0) }\nreturn 1 + r }\n" + pre + "print f(" + n + ", 0) }", "", n
		case "nested-statements":
			// the recursive call sits inside several nested statements and expressions (a tree walk)
			return "function f(n, r) { if (n <= 0) { return 0 }\nfor (x in [1]) { if (n > 0) { for (y in [1]) { if (true) { r = [0 + (0 + (1 + f(n - 1, 0)))][0] } } } }\nreturn r }\n" + pre + "print f(" + n + ", 0) }", "", n
		case "heavy-expression":
			// 40 operators deep around the call
			return "function f(n) { if (n <= 0) { return 0 }\nreturn 1 + f(n - 1)" + strings.Repeat(" + 0", 40) + " }\n" + pre + "print f(" + n + ") }", "", n
		case "repeated":
			// the limit is a fixed one: the same recursion performed eight times in one run
			return "function f(n) { if (n <= 0) { return 0 }\nreturn 1 + f(n - 1) }\n" + pre + "t = 0\nfor (i = 0; i < 8; i++) { t = t + f(" + n + ") }\nprint t / 8 }", "", n
		case "repeated-per-value":
			// ... and once for each of 40 input values
			return "function f(n) { return match (n) { 0 => 0, k => 1 + f(k - 1) } }\n" + pre + "}\n{ t = t + f(" + n + ") + $ }\nEND { print t / 40 }", strings.Repeat("0\n", 40), n
		case "runaway-heavy-binary":
			return "function f(n) { return f(n + 1)" + strings.Repeat(" + 1", 100) + " }\n" + pre + "print f(0) }", "", "REFUSED"
		case "runaway-heavy-unary":
			return "function f(n) { return " + strings.Repeat("!", 120) + "f(n + 1) }\n" + pre + "print f(0) }", "", "REFUSED"
		case "runaway-heavy-statements":
			return "function f(n) { " + strings.Repeat("if (true) { ", 150) + "return f(n + 1)" + strings.Repeat(" }", 150) + " }\n" + pre + "print f(0) }", "", "REFUSED"
		case "runaway-match-odd":
			// the same through one more call: the frame that crosses the limit is then a match
			// case's frame instead of a call's (or the other way round)
			return "function f(n) { return match (n) { k => f([k]) } }\nfunction g() { return f(0) }\n" + pre + "print g() }", "", "REFUSED"
		case "runaway-match-block-odd":
			return "function f(n) { match (n) { k => { return f(k + 1) } } }\nfunction g() { return f(0) }\nfunction h() { return g() }\n" + pre + "print f(0), g(), h() }", "", "REFUSED"
		case "runaway":
			return "function f(n) { return f(n + 1) }\n" + pre + "print f(0) }", "", "REFUSED"
		case "runaway-mutual":
			return "function f(n) { return g(n) + 1 }\nfunction g(n) { return f(n) + 1 }\n" + pre + "print f(0) }", "", "REFUSED"
		case "runaway-match":
			return "function f(n) { return match (n) { k => f([k]) } }\n" + pre + "print f(0) }", "", "REFUSED"
		}
	case "index":
		pre := "BEGIN { print \"pre\"\n"
		switch c.Shape {
		case "write-fresh":
			return pre + "a[" + n + "] = 1\nprint a.length() }", "", "LEN"
		case "write-existing":
			return pre + "a = [1, 2, 3]\na[" + n + "] = 1\nprint a.length() }", "", "LEN"
		case "write-nested":
			return pre + "a[2][" + n + "] = 1\nprint a[2].length() }", "", "LEN"
		case "write-intermediate":
			// the large index is not the last one of the target: the array comes into being, and
			// is filled, as a missing intermediate of the store
			return pre + "a[" + n + "][0] = 1\nprint a.length() }", "", "LEN"
		case "write-intermediate-member":
			return pre + "o.list[" + n + "].k = 1\nprint o.list.length() }", "", "LEN"
		case "write-intermediate-document":
			return "{ print \"pre\"\n$.list[" + n + "][1] = 1\nprint $.list.length() }", "{\"list\":[]}", "LEN"
		case "read-existing":
			return pre + "a = [1, 2, 3]\nx = a[" + n + "]\nprint a.length() }", "", "READ"
		case "write-input-index":
			return "{ print \"pre\"\na[$.i] = 1\nprint a.length() }", "{\"i\":" + n + "}", "LEN"
		case "write-stepwise":
			// grow in steps of 900000: no single gap is large, the final index is
			return pre + "for (i = 900000; i <= " + n + "; i = i + 900000) { a[i] = 1 }\nprint a.length() }", "", "LEN"
		case "incr-fresh":
			return pre + "a[" + n + "]++\nprint a.length() }", "", "LEN"
		}
	case "width":
		pre := "BEGIN { print \"pre\"\n"
		arg := map[string]string{"s": "\"x\"", "f": "7", "v": "[1]"}[c.Shape]
		return pre + "printf(\"%" + n + c.Shape + "|\", " + arg + ")\nprint \"\"\nprint \"ok\" }", "", "WIDTH"
	case "nesting":
		var depth int
		fmt.Sscan(n, &depth)
		var open, close string
		switch c.Shape {
		case "arrays":
			open, close = strings.Repeat("[", depth), strings.Repeat("]", depth)
		case "objects":
			open, close = strings.Repeat("{\"a\":", depth)+"1", strings.Repeat("}", depth)
		default:
			var ob, cb strings.Builder
			for i := 0; i < depth; i++ {
				if i%2 == 0 {
					ob.WriteString("[")
				} else {
					ob.WriteString("{\"k\":")
				}
			}
			if depth%2 == 0 && depth > 0 {
				ob.WriteString("0")
			}
			for i := depth - 1; i >= 0; i-- {
				if i%2 == 0 {
					cb.WriteString("]")
				} else {
					cb.WriteString("}")
				}
			}
			open, close = ob.String(), cb.String()
		}
		if c.Shape == "mixed" && depth%2 == 1 {
			// innermost is an array: fine, may be empty
		}
		// the accepted document is also used: printed in full (BEGINFILE sees the whole value)
		return "BEGIN { print \"pre\" } BEGINFILE { print $ } { x = 1 } END { print \"done\" }", open + close, "NEST"
	}
	panic("c20Program: unknown case")
}

type c20Result struct {
	Outcome string // "ok" | "refused" | "inconclusive"
	Msg     string // a violation, if any
}

// c20Run executes one case through the binary and classifies it.
func c20Run(c *C20Case) c20Result {
	prog, input, expect := c20Program(c)
	args := []string{"-f", "p.jqawk"}
	files := map[string][]byte{"p.jqawk": []byte(prog)}
	if input != "" {
		files["in.json"] = []byte(input)
		args = append(args, "in.json")
	}
	res, err := run.CLI(run.CLIOpts{Args: args, Files: files, Timeout: 90 * time.Second})
	if err != nil {
		return c20Result{Outcome: "inconclusive"}
	}
	if res.TimedOut {
		return c20Result{Outcome: "inconclusive"}
	}
	desc := fmt.Sprintf("%s/%s n=%s", c.Family, c.Shape, c.N)
	if res.Signal != "" {
		return c20Result{Msg: fmt.Sprintf("%s: the process was killed by %s", desc, res.Signal)}
	}
	if m := run.LooksLikeCrash(res.Stderr); m != "" {
		return c20Result{Msg: fmt.Sprintf("%s: the process crashed (%s): %s", desc, m, clip(string(res.Stderr)))}
	}
	if res.MaxRSSKB > rssCeilingKB {
		return c20Result{Msg: fmt.Sprintf("%s: peak RSS %d MiB exceeds the 1 GiB ceiling", desc, res.MaxRSSKB/1024)}
	}
	out := string(res.Stdout)
	if !strings.HasPrefix(out, "pre\n") {
		return c20Result{Msg: fmt.Sprintf("%s: output before the step is missing: %q (exit %d, stderr %q)", desc, clip(out), res.Exit, clip(string(res.Stderr)))}
	}
	rest := strings.TrimPrefix(out, "pre\n")
	switch res.Exit {
	case 0:
		// accepted: the value must be right
		switch expect {
		case "REFUSED":
			return c20Result{Msg: fmt.Sprintf("%s: runaway recursion ended successfully with %q", desc, clip(rest))}
		case "LEN":
			var idx float64
			fmt.Sscan(c.N, &idx)
			want := fmt.Sprintf("%d\n", int64(idx)+1)
			if c.Shape == "write-existing" && int64(idx) < 3 {
				want = "3\n"
			}
			if rest != want {
				return c20Result{Msg: fmt.Sprintf("%s: accepted, but the array length printed is %q, want %q", desc, clip(rest), want)}
			}
		case "READ":
			if rest != "3\n" {
				return c20Result{Msg: fmt.Sprintf("%s: a read changed the array: length printed %q", desc, clip(rest))}
			}
		case "WIDTH":
			var w int
			fmt.Sscan(c.N, &w)
			if w < 0 {
				w = -w
			}
			lines := strings.SplitN(rest, "\n", 2)
			if len(lines[0]) != maxInt(w, map[string]int{"s": 1, "f": 1, "v": 3}[c.Shape])+1 || !strings.HasSuffix(rest, "\nok\n") {
				return c20Result{Msg: fmt.Sprintf("%s: accepted, but the padded output has %d bytes", desc, len(lines[0]))}
			}
		case "NEST":
			// (print writes a space after the colon of a member; the documents have none)
			want := strings.ReplaceAll(strings.ReplaceAll(input, "\"a\":", "\"a\": "), "\"k\":", "\"k\": ") + "\ndone\n"
			if rest != want {
				return c20Result{Msg: fmt.Sprintf("%s: accepted, but the document is not printed in full: %d bytes, want %d; first difference at byte %d", desc, len(rest), len(want), firstDiff(rest, want))}
			}
		default:
			if rest != expect+"\n" {
				return c20Result{Msg: fmt.Sprintf("%s: accepted, but the result is %q, want %s", desc, clip(rest), expect)}
			}
		}
		return c20Result{Outcome: "ok"}
	case 1:
		if rest != "" {
			return c20Result{Msg: fmt.Sprintf("%s: refused, but something was printed after the failing step: %q", desc, clip(rest))}
		}
		se := string(res.Stderr)
		if !strings.Contains(se, "runtime error on line") && !strings.Contains(se, "could not parse") {
			return c20Result{Msg: fmt.Sprintf("%s: refused without a runtime / JSON error diagnostic: %q", desc, clip(se))}
		}
		return c20Result{Outcome: "refused"}
	}
	return c20Result{Msg: fmt.Sprintf("%s: exit status %d, stderr %q", desc, res.Exit, clip(string(res.Stderr)))}
}

func maxInt(a, b int) int {
	if a > b {
		return a
	}
	return b
}

type c20Ladder struct {
	family, shape string
	ns            []string
	mustWork      []string // magnitudes the statement says work
	mustRefuse    []string // magnitudes the statement says are refused
}

func c20Ladders(thorough bool) []c20Ladder {
	var ls []c20Ladder
	depths := []string{"1", "10", "1000", "3000", "4000"}
	for d := 4090; d <= 4100; d++ {
		if thorough || d%5 == 0 || d >= 4094 && d <= 4098 {
			depths = append(depths, fmt.Sprint(d))
		}
	}
	depths = append(depths, "5000", "10000", "100000")
	for _, sh := range c20RecShapes {
		if strings.HasPrefix(sh, "runaway") {
			ls = append(ls, c20Ladder{"recursion", sh, []string{"0"}, nil, []string{"0"}})
			continue
		}
		l := c20Ladder{"recursion", sh, depths, []string{"1", "10", "1000"}, []string{"10000", "100000"}}
		if sh == "direct" && !thorough {
			// the other shapes use a thinner ladder in the quick tier
		} else if !thorough {
			l.ns = []string{"10", "1000", "2040", "2050", "4090", "4096", "4100", "10000"}
		}
		ls = append(ls, l)
	}
	idx := []string{"0.5", "1000", "100000", "999999", "1048575", "1048576", "1048576.9", "1048577", "1048578", "2000000", "1000000000", "1000000000000000000"}
	ls = append(ls, c20Ladder{"index", "write-fresh", idx, []string{"0.5", "1000", "100000", "999999"}, []string{"2000000", "1000000000", "1000000000000000000"}})
	short := []string{"1000", "999999", "1048576", "1048577", "2000000", "1000000000000000000"}
	if thorough {
		short = idx
	}
	ls = append(ls, c20Ladder{"index", "write-existing", short, []string{"1000", "999999"}, []string{"2000000", "1000000000000000000"}})
	ls = append(ls, c20Ladder{"index", "write-nested", short, []string{"1000", "999999"}, []string{"2000000", "1000000000000000000"}})
	for _, sh := range []string{"write-intermediate", "write-intermediate-member", "write-intermediate-document"} {
		ls = append(ls, c20Ladder{"index", sh, short, []string{"1000", "999999"}, []string{"2000000", "1000000000000000000"}})
	}
	ls = append(ls, c20Ladder{"index", "write-stepwise", []string{"900000", "1800000", "2700000", "9000000"}, []string{"900000"}, []string{"2700000", "9000000"}})
	ls = append(ls, c20Ladder{"index", "incr-fresh", []string{"1000", "1048576", "1048577", "2000000"}, []string{"1000"}, []string{"2000000"}})
	ls = append(ls, c20Ladder{"index", "write-input-index", []string{"1000", "1048577", "2000000", "1e18", "1e300"}, []string{"1000"}, []string{"2000000", "1e18", "1e300"}})
	ls = append(ls, c20Ladder{"index", "read-existing", []string{"2", "3", "1000", "2000000", "1000000000000000000"}, []string{"2"}, nil})
	for _, sh := range []string{"s", "f", "v"} {
		ls = append(ls, c20Ladder{"width", sh, []string{"1", "4096", "65535", "65536", "65537", "1000000", "1000000000000", "4294967296", "4294967297", "9223372036854775807", "9223372036854775808", "10000000000000000000", "18446744073609551616", "18446744073709551616", "18446744073709551626", "99999999999999999999999999"},
			[]string{"1", "4096", "65535", "65536"}, []string{"65537", "1000000", "1000000000000", "4294967296", "4294967297", "9223372036854775807", "9223372036854775808", "10000000000000000000", "18446744073609551616", "18446744073709551616", "18446744073709551626", "99999999999999999999999999"}})
		ls = append(ls, c20Ladder{"width", sh, []string{"-1", "-4096", "-65536", "-65537", "-1000000", "-4294967297", "-9223372036854775808", "-9223372036854775809", "-18446744073709551616", "-18446744073709551626"}, []string{"-1", "-4096", "-65536"}, []string{"-65537", "-1000000", "-4294967297", "-9223372036854775808", "-9223372036854775809", "-18446744073709551616", "-18446744073709551626"}})
	}
	nest := []string{"100", "1000", "9999", "10000", "10001", "100000"}
	if thorough {
		nest = append(nest, "1000000")
	}
	for _, sh := range []string{"arrays", "objects", "mixed"} {
		ls = append(ls, c20Ladder{"nesting", sh, nest, []string{"100", "1000"}, []string{"100000", "1000000"}})
	}
	return ls
}

func contains(xs []string, x string) bool {
	for _, y := range xs {
		if x == y {
			return true
		}
	}
	return false
}

func TestC20(t *testing.T) {
	rec := start(t, "C20", "exploration",
		"boundary ladders, each rung run through the binary in an isolated subprocess with rusage collected: recursion shapes {direct, mutual over 2 and 3 functions, through a match expression body, through a match block, through an argument of a method call, inside a for-in body, three runaway shapes without a base case} x depths {1, 10, 1000, 3000, 4000, 4090..4100, 5000, 10^4, 10^5}; array indices {0.5, 10^3, 10^5, 999999, 2^20-1, 2^20, 1048576.9, 2^20+1, 2^20+2, 2*10^6, 10^9, 10^18, 1e300 via input} x {write to a fresh / existing / nested array, growth in steps of 900000, ++ on a fresh array, index from the input, read}; printf widths {1, 4096, 65535, 65536, 65537, 10^6, 10^12, 2^32, 2^32+1, 2^63-1, 2^63, 10^19, 2^64-10^8, 2^64, 2^64+10, 10^26 and negatives} x {s, f, v}; input nesting {100, 1000, 9999, 10000, 10001, 10^5 (10^6 thorough)} x {arrays, objects, mixed}. Each program prints `pre` first and the value afterwards. Oracle: accepted -> exit 0 and the right value (recursive sum, padded length, array length); refused -> exit 1 with a runtime / JSON diagnostic, `pre` on stdout, nothing after; never a signal, Go panic / fatal error, or peak RSS above 1 GiB; the magnitudes the statement names work (depth 1000, a million elements, width 65536, nesting 1000) resp. are refused (depth 10^4, index 2*10^6, width 65537, nesting 10^5); along each ladder the outcome switches at most once from accepted to refused. In-process: random points around each limit agree with the switch point found. Non-trivial: a rung within +-5 of a switch point or >= 10x beyond it. distinct = distinct rung.")
	defer rec.Finish()
	rec.Assume("a watchdog kill (90 s) is inconclusive, never a violation")
	rec.Replayer("boundary", func(raw json.RawMessage) error {
		var c C20Case
		if err := json.Unmarshal(raw, &c); err != nil {
			return err
		}
		r := c20Run(&c)
		if r.Msg != "" {
			return fmt.Errorf("%s", r.Msg)
		}
		return nil
	})
	rec.Replayer("ladder", func(raw json.RawMessage) error {
		var l struct {
			Family, Shape string
			Ns            []string
		}
		if err := json.Unmarshal(raw, &l); err != nil {
			return err
		}
		refused := ""
		for _, n := range l.Ns {
			r := c20Run(&C20Case{l.Family, l.Shape, n})
			if r.Msg != "" {
				return fmt.Errorf("%s", r.Msg)
			}
			if r.Outcome == "refused" {
				refused = n
			} else if r.Outcome == "ok" && refused != "" {
				return fmt.Errorf("%s/%s: %s is refused but the larger %s is accepted", l.Family, l.Shape, refused, n)
			}
		}
		return nil
	})
	if rec.ReplayOnly() {
		return
	}
	if run.CLIBinary() == "" {
		t.Fatalf("HARNESS-ERROR: the binary was not built")
	}
	rec.ReplayTier()

	shard, nshards := shardInfo()
	inconclusive := 0
	ladders := c20Ladders(evThorough())
	// the subprocesses are independent: run the rungs of all ladders on a small pool
	type rung struct{ li, k int }
	results := map[rung]c20Result{}
	var mu sync.Mutex
	jobs := make(chan rung)
	var wg sync.WaitGroup
	workers := 8
	if nshards > 1 {
		workers = 2
	}
	for w := 0; w < workers; w++ {
		wg.Add(1)
		go func() {
			defer wg.Done()
			for j := range jobs {
				l := ladders[j.li]
				r := c20Run(&C20Case{l.family, l.shape, l.ns[j.k]})
				mu.Lock()
				results[j] = r
				mu.Unlock()
			}
		}()
	}
	for li, l := range ladders {
		if li%nshards != shard {
			continue
		}
		for k := range l.ns {
			jobs <- rung{li, k}
		}
	}
	close(jobs)
	wg.Wait()
	for li, l := range ladders {
		if li%nshards != shard {
			continue
		}
		outcomes := make([]string, len(l.ns))
		for k, n := range l.ns {
			c := &C20Case{l.family, l.shape, n}
			r := results[rung{li, k}]
			outcomes[k] = r.Outcome
			if r.Outcome == "inconclusive" {
				inconclusive++
				rec.Discard("watchdog / exec failure (inconclusive)")
				continue
			}
			rec.Label("outcome-" + r.Outcome)
			if r.Msg != "" {
				rec.Case(fmt.Sprintf("%s/%s/%s", l.family, l.shape, n), true, "family:"+l.family)
				p, _, _ := c20Program(c)
				rec.Violation("boundary", c, p, r.Msg)
				continue
			}
			msg := ""
			if r.Outcome == "refused" && contains(l.mustWork, n) {
				msg = fmt.Sprintf("%s/%s n=%s is refused, but the statement says it works", l.family, l.shape, n)
			}
			if r.Outcome == "ok" && contains(l.mustRefuse, n) {
				msg = fmt.Sprintf("%s/%s n=%s is accepted, but the statement says it is refused", l.family, l.shape, n)
			}
			if msg != "" {
				p, _, _ := c20Program(c)
				rec.Violation("boundary", c, p, msg)
			}
		}
		// one switch point along the ladder
		sw := -1
		for k := range outcomes {
			if outcomes[k] == "refused" && sw < 0 {
				sw = k
			}
			if outcomes[k] == "ok" && sw >= 0 && l.shape != "read-existing" {
				lad := map[string]interface{}{"Family": l.family, "Shape": l.shape, "Ns": l.ns}
				rec.Violation("ladder", lad, "", fmt.Sprintf("%s/%s: n=%s is refused but the larger n=%s is accepted (outcomes %v over %v)", l.family, l.shape, l.ns[sw], l.ns[k], outcomes, l.ns))
				break
			}
		}
		for k, n := range l.ns {
			near := sw >= 0 && (k == sw || k == sw-1 || k == sw+1)
			far := sw >= 0 && k >= sw+2
			if outcomes[k] != "inconclusive" && outcomes[k] != "" {
				rec.Case(fmt.Sprintf("%s/%s/%s", l.family, l.shape, n), near || far, "family:"+l.family, "shape:"+l.family+"/"+l.shape)
			}
		}
		rec.Sample(func() interface{} {
			p, in, _ := c20Program(&C20Case{l.family, l.shape, l.ns[len(l.ns)/2]})
			return map[string]interface{}{"family": l.family, "shape": l.shape, "ladder": l.ns, "outcomes": outcomes, "program_at_middle_rung": p, "input_bytes": len(in)}
		})
	}
	if inconclusive >= 3 {
		fmt.Printf("HARNESS-ERROR %d inconclusive subprocess runs\n", inconclusive)
		t.Errorf("too many inconclusive runs")
	}
	rec.Exhaustive("the stated ladders (family x shape x magnitudes)")

	// in-process: random cheap points around each limit must agree with the switch point
	inproc := func(c *C20Case) string {
		prog, input, _ := c20Program(c)
		var files []run.InFile
		if input != "" {
			files = []run.InFile{{Name: "in", Data: []byte(input)}}
		}
		o := run.InProc(prog, files, nil, run.Opts{Budget: 400_000_000})
		switch o.Class {
		case "ok":
			return "ok"
		case "runtime", "json":
			return "refused"
		}
		return o.Class + ":" + o.Panic + o.Msg
	}
	find := func(family, shape string, lo, hi int) int {
		// smallest n in (lo, hi] that is refused, assuming lo accepted and hi refused
		for hi-lo > 1 {
			mid := (lo + hi) / 2
			if inproc(&C20Case{family, shape, fmt.Sprint(mid)}) == "ok" {
				lo = mid
			} else {
				hi = mid
			}
		}
		return hi
	}
	type lim struct {
		family, shape string
		lo, hi        int
	}
	lims := []lim{{"recursion", "direct", 1000, 10000}, {"recursion", "match-expr", 1000, 10000}, {"recursion", "mutual2", 1000, 10000},
		{"recursion", "forin-body", 1000, 10000}, {"width", "s", 65536, 65537}, {"width", "v", 65536, 65537}, {"nesting", "arrays", 1000, 100000}, {"nesting", "mixed", 1000, 100000}}
	switchAt := map[string]int{}
	for _, l := range lims {
		switchAt[l.family+"/"+l.shape] = find(l.family, l.shape, l.lo, l.hi)
	}
	// the limits are constants of the interpreter, not state of the process: after a run in
	// fuzzing mode (as the repository's own fuzz targets make) the stated magnitudes still work
	for _, mode := range []bool{true, false} {
		run.InProc("BEGIN { a[10] = 1 ; while (x < 5) { x++ } }", nil, nil, run.Opts{Budget: 1_000_000, Fuzzing: mode})
		for _, c := range []*C20Case{{"index", "write-fresh", "999999"}, {"index", "write-existing", "100000"}, {"recursion", "direct", "1000"}, {"width", "s", "65536"}} {
			got := inproc(c)
			rec.Case(fmt.Sprintf("after-fuzzing-run %v %s/%s/%s", mode, c.Family, c.Shape, c.N), true, "in-process", "after-a-fuzzing-mode-run")
			if got != "ok" {
				p, _, _ := c20Program(c)
				rec.Violation("boundary", c, p, fmt.Sprintf("%s/%s n=%s gives %s in a process that made a fuzzing-mode run before (fuzzing=%v); the statement says it works", c.Family, c.Shape, c.N, got, mode))
			}
		}
	}
	check(rec, "near-limit-random", scale(300, 60000), func(rt *rapid.T) {
		l := lims[rapid.IntRange(0, len(lims)-1).Draw(rt, "limit")]
		s := switchAt[l.family+"/"+l.shape]
		var n int
		switch rapid.IntRange(0, 2).Draw(rt, "where") {
		case 0:
			n = s + rapid.IntRange(-5, 5).Draw(rt, "delta")
		case 1:
			n = rapid.IntRange(1, s-1).Draw(rt, "below")
		default:
			n = s + rapid.IntRange(0, s).Draw(rt, "above")
		}
		if n < 1 {
			n = 1
		}
		c := &C20Case{l.family, l.shape, fmt.Sprint(n)}
		got := inproc(c)
		want := "ok"
		if n >= s {
			want = "refused"
		}
		rec.Case(fmt.Sprintf("inproc %s/%s/%d", l.family, l.shape, n), n >= s-5 && n <= s+5 || n >= 10*s, "in-process", "family:"+l.family)
		if got != want {
			p, _, _ := c20Program(c)
			msg := fmt.Sprintf("%s/%s: the switch point is %d, but n=%d gives %s", l.family, l.shape, s, n, got)
			rec.Pending("boundary", c, p, msg)
			rt.Fatalf("%s", msg)
		}
	})
}
