package props

import (
	"bytes"
	stdjson "encoding/json"
	"errors"
	"fmt"
	"io"
	"strings"
	"testing"
	"time"

	"verif/harness/ast"
	"verif/harness/gen"
	"verif/harness/jsonx"
	"verif/harness/run"

	"pgregory.net/rapid"
)

// C03 — input is a JSON value stream: incremental, chunking-independent, faults
// reported. The harness owns the io.Reader, so "does not wait" is decided
// without clocks: when the decoder comes back for bytes beyond value k (+1
// byte), the output of values 1..k must already have been written.

var errInjected = errors.New("injected read error")

type ownedReader struct {
	data      []byte
	chunks    []int
	ci        int
	pos       int
	failAt    int  // -1: never; otherwise Read fails once pos has reached failAt
	failData  bool // deliver the last bytes together with the error
	transient bool // the error is returned once; later reads succeed again
	failed    bool
	eofData   bool // the last bytes are delivered together with io.EOF (as the io.Reader contract allows)
	barriers  []int
	bi        int
	onBarrier func(k int)
	reads     int
}

func (r *ownedReader) Read(p []byte) (int, error) {
	r.reads++
	if len(p) == 0 {
		return 0, nil
	}
	if r.failAt >= 0 && r.pos >= r.failAt && !(r.transient && r.failed) {
		r.failed = true
		return 0, errInjected
	}
	for r.bi < len(r.barriers) && r.pos >= r.barriers[r.bi] {
		if r.onBarrier != nil {
			r.onBarrier(r.bi)
		}
		r.bi++
	}
	if r.pos >= len(r.data) {
		return 0, io.EOF
	}
	limit := len(r.data)
	if r.bi < len(r.barriers) && r.barriers[r.bi] < limit {
		limit = r.barriers[r.bi]
	}
	if r.failAt >= 0 && r.failAt < limit && !(r.transient && r.failed) {
		limit = r.failAt
	}
	n := len(p)
	if len(r.chunks) > 0 {
		c := r.chunks[r.ci%len(r.chunks)]
		r.ci++
		if c < n {
			n = c
		}
	}
	if n > limit-r.pos {
		n = limit - r.pos
	}
	if n <= 0 {
		n = 1
		if r.pos+n > len(r.data) {
			return 0, io.EOF
		}
	}
	copy(p, r.data[r.pos:r.pos+n])
	r.pos += n
	if r.failData && r.failAt >= 0 && r.pos >= r.failAt && !(r.transient && r.failed) {
		r.failed = true
		return n, errInjected
	}
	if r.eofData && r.pos >= len(r.data) {
		return n, io.EOF
	}
	return n, nil
}

// refSplit cuts a byte slice into values the way a non-incremental reader of the
// same grammar does: decode value after value from the whole slice. It returns
// the end offset of every complete value and whether the rest is a fault.
type splitVal struct {
	text      string
	end       int  // offset just past the value
	container bool // arrays and objects are known complete at their closing bracket
}

func refSplit(data []byte) (vals []splitVal, fault bool) {
	dec := stdjson.NewDecoder(bytes.NewReader(data))
	for {
		var raw stdjson.RawMessage
		err := dec.Decode(&raw)
		if err == io.EOF {
			return vals, false
		}
		if err != nil {
			return vals, true
		}
		end := int(dec.InputOffset())
		c := len(raw) > 0 && (raw[0] == '[' || raw[0] == '{')
		vals = append(vals, splitVal{text: string(raw), end: end, container: c})
	}
}

type C03Case struct {
	Data     ast.BS `json:"data"`   // the bytes the reader will deliver (faults already applied to the text)
	Chunks   []int  `json:"chunks"` // read sizes, cycled (empty = as large as asked)
	FailAt   int    `json:"fail_at"`
	FailData bool   `json:"fail_data,omitempty"`
	Transient bool  `json:"transient,omitempty"` // the reader fails once and then goes on delivering
	EOFData  bool   `json:"eof_data,omitempty"`  // the reader returns its last bytes together with io.EOF
	Second   bool   `json:"second,omitempty"`    // a second, well-formed input file follows this one
	Prog     int    `json:"prog"`
	Barrier  bool   `json:"barrier"` // check incrementality with barriers
	What     string `json:"what"`
}

type c03Prog struct {
	src   string
	sels  []string
	begin string // what the program prints before any input (BEGIN rules)
	end   string // what it prints after all input (END rules)
}

// programs that keep earlier documents: for the k-th value they print their units for the
// values 1..k ("cumulative") or for the values k-1 and k ("window")
var c03Keeps = map[int]string{11: "cumulative", 12: "window"}

var c03Programs = []c03Prog{
	{`BEGINFILE { print "bf", $file } { print "v", $ } ENDFILE { print "ef" }`, nil, "", ""},
	{`{ print }`, nil, "", ""},
	{`BEGIN { print "begin" } BEGINFILE { print "bf", $ } $ is number { print "num", $ } $ is string { print "str", $ } END { print "end" }`, nil, "begin\n", "end\n"},
	{`{ print "v", $ } ENDFILE { print "ef", $file }`, []string{"$"}, "", ""},
	{`{ print "v", $ }`, []string{"$.a", "$"}, "", ""},
	// programs that never look at the input still read it: a faulty stream is an error for them too
	{`BEGIN { print "only begin" }`, nil, "only begin\n", ""},
	{``, nil, "", ""},
	{`END { print "only end" }`, nil, "", "only end\n"},
	{`function unused() { return 1 } BEGIN { x = 1 }`, []string{"$"}, "", ""},
	// output through printf only (another code path to stdout than print), and mixed
	{`{ printf("v %v\n", $) }`, nil, "", ""},
	{`BEGIN { printf("begin\n") } { printf("a %v|", $); print "b" } ENDFILE { printf("ef\n") }`, nil, "begin\n", ""},
	// a program that keeps every document it has seen and prints them all again for each new
	// one: an earlier value stays what it was when later values are read
	{`BEGINFILE { keep.push($) ; for (d in keep) { print d } }`, nil, "", ""},
	{`BEGINFILE { prev = cur ; cur = $ ; if (prev is unknown) { print cur } else { print prev ; print cur } }`, nil, "", ""},
	// a program that changes every value it is given: each value of the stream starts out as it was read
	{`BEGINFILE { if ($ is object) { $.seen = $.seen + "x" ; $.a = [$.a] } if ($ is array) { $.push("x") ; $[0] = [$[0]] } print $ }`, nil, "", ""},
}

// c03Unit runs the program on a single value and returns its output (the unit of
// the composition law).
func c03Unit(p c03Prog, value string) (string, bool) {
	o := run.InProc(p.src, []run.InFile{{Name: "f", Data: []byte(value)}}, p.sels, run.Opts{Budget: implBudget})
	return string(o.Stdout), o.Class == "ok"
}

func c03BeginEnd(p c03Prog) (begin, end string) { return p.begin, p.end }

func c03Check(c *C03Case) string {
	p := c03Programs[c.Prog]
	data := []byte(c.Data)
	delivered := data
	if c.FailAt >= 0 && c.FailAt <= len(data) {
		delivered = data[:c.FailAt]
	}
	vals, fault := refSplit(delivered)
	begin, end := c03BeginEnd(p)
	// expected output: BEGIN, then the units of the complete values
	var units []string
	for _, v := range vals {
		u, ok := c03Unit(p, v.text)
		if !ok {
			return "" // the program fails on this value by itself: not a stream question
		}
		units = append(units, strings.TrimSuffix(strings.TrimPrefix(u, begin), end))
	}
	ioFault := c.FailAt >= 0 && c.FailAt <= len(data)
	// with a read error a trailing scalar without a following byte may or may not count as complete
	optionalLast := false
	if ioFault && len(vals) > 0 && !vals[len(vals)-1].container && vals[len(vals)-1].end == len(delivered) {
		optionalLast = true
	}
	expectErr := fault || ioFault
	// upTo: the output for the first n values (without the END part)
	upTo := func(n int) string {
		switch c03Keeps[c.Prog] {
		case "cumulative":
			s := begin
			for k := 0; k < n; k++ {
				s += strings.Join(units[:k+1], "")
			}
			return s
		case "window":
			s := begin
			for k := 0; k < n; k++ {
				if k > 0 {
					s += units[k-1]
				}
				s += units[k]
			}
			return s
		}
		return begin + strings.Join(units[:n], "")
	}
	second := c.Second && c03Keeps[c.Prog] == ""
	unitG := ""
	if second {
		// the second file's own contribution, with its own name
		og := run.InProc(p.src, []run.InFile{{Name: "g", Data: []byte(c03SecondFile)}}, p.sels, run.Opts{Budget: implBudget})
		unitG = strings.TrimSuffix(strings.TrimPrefix(string(og.Stdout), begin), end)
	}
	mk := func(n int) string {
		s := upTo(n)
		if !expectErr {
			s += unitG + end
		}
		return s
	}
	var out bytes.Buffer
	rd := &ownedReader{data: data, chunks: c.Chunks, failAt: -1, failData: c.FailData, transient: c.Transient, eofData: c.EOFData}
	if ioFault {
		rd.failAt = c.FailAt
	}
	barrierMsg := ""
	if c.Barrier && !ioFault {
		for _, v := range vals {
			b := v.end + 1
			if b > len(data) {
				// no following byte exists: the value is only known complete at end of input
				break
			}
			rd.barriers = append(rd.barriers, b)

		}
		rd.onBarrier = func(k int) {
			// the decoder wants bytes beyond value k (+1): everything up to and
			// including value k must already be written
			want := upTo(k + 1)
			if barrierMsg == "" && !strings.HasPrefix(out.String(), want) {
				barrierMsg = fmt.Sprintf("value %d (%s) and one following byte had been read, but its output was not written before the reader was asked for more\n written so far: %q\n expected at least: %q", k+1, clip(vals[k].text), clip(out.String()), clip(want))
			}
		}
	}
	o := runWithReader(p, rd, &out, second)
	if o.Class == "panic" {
		return "panic: " + o.Panic
	}
	if barrierMsg != "" {
		return barrierMsg
	}
	got := out.String()
	if expectErr {
		if o.Class != "json" {
			return fmt.Sprintf("%s: the stream has a fault after %d complete value(s) but the run ended with outcome %s (%s) and output %q", c.What, len(vals), o.Class, o.Msg, clip(got))
		}
		if o.FileName != "f" {
			return fmt.Sprintf("the JSON error names file %q, not \"f\"", o.FileName)
		}
		if got == mk(len(vals)) || (optionalLast && got == mk(len(vals)-1)) {
			// (3) also the reported error is the same however the bytes are split across reads
			other := []int{1}
			if len(c.Chunks) == 1 && c.Chunks[0] == 1 {
				other = nil
			}
			rd2 := &ownedReader{data: data, chunks: other, failAt: rd.failAt, failData: c.FailData, transient: c.Transient, eofData: c.EOFData}
			var out2 bytes.Buffer
			o2 := runWithReader(p, rd2, &out2, second)
			if o2.Class != o.Class || o2.Msg != o.Msg || o2.FileName != o.FileName {
				return fmt.Sprintf("%s: the reported error depends on how the bytes are split across reads\n chunks %v: %s %q\n chunks %v: %s %q", c.What, c.Chunks, o.Class, o.Msg, other, o2.Class, o2.Msg)
			}
			return ""
		}
		return fmt.Sprintf("%s: output before the JSON error is not the output of the %d complete value(s)\n%s", c.What, len(vals), outDiff([]byte(got), []byte(mk(len(vals)))))
	}
	if o.Class != "ok" {
		return fmt.Sprintf("%s: a well-formed stream of %d value(s) ended with outcome %s (%s)", c.What, len(vals), o.Class, o.Msg)
	}
	if got != mk(len(vals)) {
		return fmt.Sprintf("%s: output is not the concatenation of the per-value outputs\n%s", c.What, outDiff([]byte(got), []byte(mk(len(vals)))))
	}
	return ""
}

const c03SecondFile = "[\"second\"]\n"

func runWithReader(p c03Prog, rd io.Reader, out *bytes.Buffer, second ...bool) run.Outcome {
	files := []run.InFile{{Name: "f", Reader: rd}}
	if len(second) > 0 && second[0] {
		files = append(files, run.InFile{Name: "g", Data: []byte(c03SecondFile)})
	}
	o := run.InProcW(p.src, files, p.sels, run.Opts{Budget: implBudget}, out)
	return o
}

func genC03Stream(t *rapid.T) (string, int) {
	n := rapid.IntRange(0, 6).Draw(t, "nvalues")
	var sb strings.Builder
	o := gen.DocOpts{Depth: 2, MaxItems: 3, SafeStr: true, SmallNums: true, Keys: []string{"a", "b"}}
	sb.WriteString(rapid.SampledFrom([]string{"", "", " ", "\n"}).Draw(t, "lead"))
	prevText := ""
	for k := 0; k < n; k++ {
		var v *jsonx.Val
		if rapid.Bool().Draw(t, "scalar") {
			v = gen.JSONScalar(o).Draw(t, "sv")
		} else {
			v = gen.JSONDoc(o).Draw(t, "dv")
		}
		text := gen.Compact(v)
		if k > 0 && prevText != "" && rapid.IntRange(0, 3).Draw(t, "repeat") == 0 {
			// the same value again, byte for byte: it is a value of its own
			text = prevText
		}
		prevText = text
		sep := rapid.SampledFrom([]string{" ", "\n", "\r\n\t", "  ", "", ""}).Draw(t, "sep")
		if sep == "" && k+1 < n {
			// no separator is legal only after a container or a string
			last := text[len(text)-1]
			if last != ']' && last != '}' && last != '"' {
				sep = " "
			}
		}
		sb.WriteString(text)
		if k+1 < n || rapid.Bool().Draw(t, "trail") {
			sb.WriteString(sep)
		}
	}
	return sb.String(), n
}

func genChunks(t *rapid.T, n int) []int {
	switch rapid.IntRange(0, 4).Draw(t, "chunking") {
	case 0:
		return []int{1}
	case 1:
		return nil
	case 2:
		return []int{rapid.IntRange(2, 7).Draw(t, "fixed")}
	default:
		k := rapid.IntRange(1, 6).Draw(t, "nch")
		cs := make([]int, k)
		for i := range cs {
			cs[i] = rapid.IntRange(1, 9).Draw(t, "ch")
		}
		return cs
	}
}

// ---- the same through the binary: values arrive one at a time on stdin or through a FIFO ------------

type C03CLI struct {
	Values []string `json:"values"` // JSON texts, written one at a time, each followed by a newline
	Fifo   bool     `json:"fifo"`
	Prog   int      `json:"prog"`
}

// c03CLIOnce feeds the values one by one. It returns stalledAt >= 0 if the output
// of value stalledAt had not appeared after the patience although the value and a
// following byte had been written, and whether the complete output was right in the end.
func c03CLIOnce(c *C03CLI, patience time.Duration) (stalledAt int, finalOK bool, detail string, conclusive bool) {
	p := c03Programs[c.Prog]
	var args []string
	for _, s := range p.sels {
		args = append(args, "-r", s)
	}
	args = append(args, "--", p.src)
	st, err := run.StartStream(args, c.Fifo)
	if err != nil {
		return -1, false, err.Error(), false
	}
	want := p.begin
	stalledAt = -1
	for k, v := range c.Values {
		u, ok := c03Unit(p, v)
		if !ok {
			st.Kill()
			return -1, false, "unit failed", false
		}
		u = strings.TrimSuffix(strings.TrimPrefix(u, p.begin), p.end)
		if c.Fifo {
			// with a named file $file is the FIFO's name
			u = strings.ReplaceAll(u, " f\n", " in.fifo\n")
		} else {
			u = strings.ReplaceAll(u, " f\n", " <stdin>\n")
		}
		want += u
		if err := st.Write([]byte(v + "\n")); err != nil {
			break
		}
		if !st.WaitOutput(len(want), patience) && stalledAt < 0 {
			stalledAt = k
			detail = fmt.Sprintf("value %d (%s) and the newline after it were written; after %v its output had not appeared (so far: %q)", k+1, clip(v), patience, clip(string(st.Output())))
		}
	}
	want += p.end
	exit, out, stderr, ok := st.Finish(20 * time.Second)
	if !ok {
		return stalledAt, false, "the binary did not exit after its input was closed", false
	}
	finalOK = exit == 0 && string(out) == want
	if !finalOK && detail == "" {
		detail = fmt.Sprintf("exit %d, stdout %q, want %q, stderr %q", exit, clip(string(out)), clip(want), clip(string(stderr)))
	}
	return stalledAt, finalOK, detail, true
}

// c03CLICheck: a stall counts only if it is reproduced with a long patience and
// the missing output does appear once later input / end of input is supplied -
// i.e. the output of a value demonstrably waited for something after it.
func c03CLICheck(c *C03CLI) (msg string, conclusive bool) {
	stalled, finalOK, detail, ok := c03CLIOnce(c, 3*time.Second)
	if !ok {
		return "", false
	}
	if stalled < 0 {
		if !finalOK {
			return "fed value by value, the binary's complete output is wrong: " + detail, true
		}
		return "", true
	}
	// confirm twice with more patience
	for try := 0; try < 2; try++ {
		s2, f2, d2, ok2 := c03CLIOnce(c, 10*time.Second)
		if !ok2 {
			return "", false
		}
		if s2 < 0 {
			return "", false // it was just slow: inconclusive
		}
		stalled, finalOK, detail = s2, f2, d2
	}
	if finalOK {
		return "the output of a value is held back until later input (or end of input) arrives: " + detail + "; once the input was closed the complete output was right", true
	}
	return "stalled and wrong: " + detail, true
}

func TestC03(t *testing.T) {
	rec := start(t, "C03", "fault_enumeration",
		"streams of 0-6 generated JSON values (top-level arrays, objects and scalars) joined by random legal separators (none where legal), read through a harness-owned io.Reader under a chunking schedule (1-byte reads, fixed and random chunk sizes, one big read) by 9 programs (per-value stateless tracers with and without selectors, and programs that never look at the input: BEGIN-only, END-only, empty). Per stream, every fault position is enumerated: truncation at every byte, a read error at every byte (persistent, delivered together with the last bytes, and one-off with the reader recovering afterwards), and (sampled) single-byte corruption at every byte by 6 replacement bytes plus stray ] } , x between values. Oracles: (1) reference splitter = value-after-value decoding of the delivered bytes as a whole; (2) composition: output = BEGIN ++ out(v1) ++ ... ++ out(vn) ++ END with out(vi) the implementation's own output on the single value; with a fault after value j: JsonError naming the file, output = BEGIN ++ out(v1..vj), no END, no rule on the partial value; (3) identical results for every chunking; (4) incrementality: the reader withholds every byte beyond end(vk)+1 and, when asked for more, checks that out(v1..vk) is already written. A sample goes through the binary: values are written one at a time to its stdin or to a FIFO named as the input file, and each value's output must arrive before the next value is written (a stall counts only when reproduced twice with 10 s patience and the output does appear once the input is closed; otherwise it is inconclusive). Non-trivial: >= 2 values and (a chunk boundary inside a value, a fault, or a barrier after a top-level scalar). distinct = distinct (delivered bytes, schedule, fault, program).")
	defer rec.Finish()
	rec.Assume("the JSON grammar itself is not under test: encoding/json, used non-incrementally on the whole byte slice, is the reference splitter; the streaming loop around the decoder is what is checked")
	rec.Assume("with a read error directly after a top-level scalar (no following byte delivered) the scalar may or may not count as complete")
	rec.Replayer("stream", func(raw stdjson.RawMessage) error {
		var c C03Case
		if err := stdjson.Unmarshal(raw, &c); err != nil {
			return err
		}
		if m := c03Check(&c); m != "" {
			return fmt.Errorf("%s\ndata: %q chunks %v fail_at %d program %s", m, string(c.Data), c.Chunks, c.FailAt, c03Programs[c.Prog].src)
		}
		return nil
	})
	rec.Replayer("cli-stream", func(raw stdjson.RawMessage) error {
		var c C03CLI
		if err := stdjson.Unmarshal(raw, &c); err != nil {
			return err
		}
		if m, _ := c03CLICheck(&c); m != "" {
			return fmt.Errorf("%s", m)
		}
		return nil
	})
	if rec.ReplayOnly() {
		return
	}
	rec.ReplayTier()

	if run.CLIBinary() != "" {
		inconclusive := 0
		check(rec, "cli-stream", scale(16, 400), func(rt *rapid.T) {
			n := rapid.IntRange(1, 4).Draw(rt, "nvalues")
			c := &C03CLI{Fifo: rapid.Bool().Draw(rt, "fifo"), Prog: rapid.SampledFrom([]int{0, 1, 2, 3, 9, 10, 9, 10}).Draw(rt, "prog")}
			o := gen.DocOpts{Depth: 1, MaxItems: 3, SafeStr: true, SmallNums: true, Keys: []string{"a", "b"}}
			for k := 0; k < n; k++ {
				var v *jsonx.Val
				if rapid.Bool().Draw(rt, "scalar") {
					v = gen.JSONScalar(o).Draw(rt, "sv")
				} else {
					v = gen.JSONDoc(o).Draw(rt, "dv")
				}
				c.Values = append(c.Values, gen.Compact(v))
			}
			msg, conclusive := c03CLICheck(c)
			if !conclusive {
				inconclusive++
				rec.Discard("binary too slow or could not be started (inconclusive)")
				return
			}
			rec.Case(fmt.Sprintf("cli %v %v %d", c.Values, c.Fifo, c.Prog), n >= 2, "cli-stream", fmt.Sprintf("fifo-%v", c.Fifo))
			if msg != "" {
				rec.Pending("cli-stream", c, c03Programs[c.Prog].src, msg)
				rt.Fatalf("%s", msg)
			}
		})
	}

	maxEnum := 60
	if evThorough() {
		maxEnum = 200
	}
	check(rec, "stream-random", scale(1200, 500000), func(rt *rapid.T) {
		stream, nvals := genC03Stream(rt)
		prog := rapid.IntRange(0, len(c03Programs)-1).Draw(rt, "prog")
		chunks := genChunks(rt, len(stream))
		try := func(c *C03Case, labels ...string) {
			msg := c03Check(c)
			nt := nvals >= 2
			rec.Case(fmt.Sprintf("%q|%v|%d|%v|%v|%v|%v|%d|%v", string(c.Data), c.Chunks, c.FailAt, c.FailData, c.Transient, c.EOFData, c.Second, c.Prog, c.Barrier), nt, labels...)
			rec.Sample(func() interface{} {
				return map[string]interface{}{"bytes": string(c.Data), "chunks": c.Chunks, "fail_at": c.FailAt, "what": c.What, "program": c03Programs[c.Prog].src}
			})
			if msg != "" {
				rec.Pending("stream", c, c03Programs[c.Prog].src, msg)
				rt.Fatalf("%s\ndata: %q", msg, string(c.Data))
			}
		}
		// no fault: chunking independence and incrementality
		try(&C03Case{Data: ast.BS(stream), Chunks: chunks, FailAt: -1, Prog: prog, Barrier: true, What: "well-formed stream, barriers"}, "no-fault", "barriers")
		try(&C03Case{Data: ast.BS(stream), Chunks: []int{1}, FailAt: -1, Prog: prog, What: "well-formed stream, 1-byte reads"}, "no-fault", "one-byte-reads")
		try(&C03Case{Data: ast.BS(stream), Chunks: nil, FailAt: -1, Prog: prog, What: "well-formed stream, one read"}, "no-fault", "one-read")
		try(&C03Case{Data: ast.BS(stream), Chunks: chunks, FailAt: -1, Second: true, Prog: prog, What: "well-formed stream followed by a second input file"}, "no-fault", "second-input-file")
		if len(stream) > 0 {
			k := rapid.IntRange(0, len(stream)).Draw(rt, "secondfail")
			try(&C03Case{Data: ast.BS(stream), Chunks: chunks, FailAt: k, Second: true, Prog: prog, What: fmt.Sprintf("read error at byte %d of the first of two input files", k)}, "read-error", "second-input-file")
			try(&C03Case{Data: ast.BS(stream[:k]), Chunks: chunks, FailAt: -1, Second: true, Prog: prog, What: fmt.Sprintf("the first of two input files truncated at byte %d", k)}, "truncation", "second-input-file")
		}
		try(&C03Case{Data: ast.BS(stream), Chunks: nil, FailAt: -1, EOFData: true, Prog: prog, What: "well-formed stream, one read that also reports end of input"}, "no-fault", "last-bytes-with-eof")
		try(&C03Case{Data: ast.BS(stream), Chunks: chunks, FailAt: -1, EOFData: true, Prog: prog, Barrier: true, What: "well-formed stream, the last read also reports end of input"}, "no-fault", "last-bytes-with-eof")
		if len(stream) <= maxEnum {
			for k := 0; k <= len(stream); k++ {
				try(&C03Case{Data: ast.BS(stream[:k]), Chunks: chunks, FailAt: -1, Prog: prog, What: fmt.Sprintf("truncation at byte %d", k)}, "truncation")
				try(&C03Case{Data: ast.BS(stream[:k]), Chunks: chunks, FailAt: -1, EOFData: true, Prog: prog, What: fmt.Sprintf("truncation at byte %d, the last read also reports end of input", k)}, "truncation", "last-bytes-with-eof")
				try(&C03Case{Data: ast.BS(stream), Chunks: chunks, FailAt: k, Prog: prog, What: fmt.Sprintf("read error at byte %d", k)}, "read-error")
				if k > 0 {
					try(&C03Case{Data: ast.BS(stream), Chunks: chunks, FailAt: k, FailData: true, Prog: prog, What: fmt.Sprintf("read error delivered with the bytes up to %d", k)}, "read-error-with-data")
				}
				try(&C03Case{Data: ast.BS(stream), Chunks: chunks, FailAt: k, Transient: true, Prog: prog, What: fmt.Sprintf("one-off read error at byte %d (the reader recovers)", k)}, "read-error-transient")
				try(&C03Case{Data: ast.BS(stream), Chunks: chunks, FailAt: k, FailData: true, Transient: true, Prog: prog, What: fmt.Sprintf("one-off read error delivered with the bytes up to %d (the reader recovers)", k)}, "read-error-transient-with-data")
			}
			rec.Label("positions-enumerated")
		} else {
			k := rapid.IntRange(0, len(stream)).Draw(rt, "k")
			try(&C03Case{Data: ast.BS(stream[:k]), Chunks: chunks, FailAt: -1, Prog: prog, What: fmt.Sprintf("truncation at byte %d", k)}, "truncation")
			try(&C03Case{Data: ast.BS(stream), Chunks: chunks, FailAt: k, Prog: prog, What: fmt.Sprintf("read error at byte %d", k)}, "read-error")
		}
		// corruption: replace one byte, or insert a stray character
		if len(stream) > 0 {
			for rep := 0; rep < 4; rep++ {
				k := rapid.IntRange(0, len(stream)-1).Draw(rt, "ck")
				b := rapid.SampledFrom([]byte{']', '}', ',', 'x', '"', ' ', '0', '[', '{', ':'}).Draw(rt, "cb")
				mod := []byte(stream)
				mod[k] = b
				try(&C03Case{Data: ast.BS(mod), Chunks: chunks, FailAt: -1, Prog: prog, What: fmt.Sprintf("byte %d replaced by %q", k, b)}, "corruption")
				try(&C03Case{Data: ast.BS(mod), Chunks: nil, FailAt: -1, EOFData: true, Prog: prog, What: fmt.Sprintf("byte %d replaced by %q, one read that also reports end of input", k, b)}, "corruption", "last-bytes-with-eof")
			}
		}
		vals, _ := refSplit([]byte(stream))
		for _, v := range vals {
			if rapid.IntRange(0, 2).Draw(rt, "stray") == 0 {
				ch := rapid.SampledFrom([]string{"]", "}", ",", "x", " ] ", ":"}).Draw(rt, "straych")
				mod := stream[:v.end] + ch + stream[v.end:]
				try(&C03Case{Data: ast.BS(mod), Chunks: chunks, FailAt: -1, Prog: prog, What: fmt.Sprintf("stray %q after the value ending at byte %d", ch, v.end)}, "stray-between-values")
				try(&C03Case{Data: ast.BS(mod), Chunks: nil, FailAt: -1, EOFData: true, Prog: prog, What: fmt.Sprintf("stray %q after the value ending at byte %d, one read that also reports end of input", ch, v.end)}, "stray-between-values", "last-bytes-with-eof")
				try(&C03Case{Data: ast.BS(mod), Chunks: chunks, FailAt: -1, Second: true, Prog: prog, What: fmt.Sprintf("stray %q after the value ending at byte %d, in the first of two input files", ch, v.end)}, "stray-between-values", "second-input-file")
				try(&C03Case{Data: ast.BS(mod), Chunks: chunks, FailAt: -1, EOFData: true, Prog: prog, What: fmt.Sprintf("stray %q after the value ending at byte %d, the last read also reports end of input", ch, v.end)}, "stray-between-values", "last-bytes-with-eof")
			}
		}
	})
}
