package props

import (
	"verif/harness/run"
	"encoding/json"
	"strings"
	"fmt"
	"testing"

	"verif/harness/ast"

	"pgregory.net/rapid"
)

// C19 — match selects the first matching case, binds pattern names, and yields
// its value (DESIGN.md 4.5).

type c19Val struct {
	kind  string // num str bool null arr obj
	lit   *ast.Node
	items []*c19Val
}

type c19Gen struct {
	t      *rapid.T
	labels    map[string]bool
	bind      int
	inPattern map[string]bool // names already bound in the pattern being built
	extra     []string        // names beyond the pool
	caseNames map[string]bool // every name bound by some alternative of the case being built
}

func (g *c19Gen) n(lo, hi int, l string) int { return rapid.IntRange(lo, hi).Draw(g.t, l) }
func (g *c19Gen) b(l string) bool           { return rapid.Bool().Draw(g.t, l) }

func (g *c19Gen) scalar() *c19Val {
	l := rapid.SampledFrom([]*ast.Node{
		ast.Num("0"), ast.Num("1"), ast.Num("2"), ast.Num("5"), ast.Str("a"), ast.Str("1"), ast.Str(""), ast.Str("2"),
		ast.True(), ast.False(), ast.Null(), ast.Num("1.5"),
		// strings whose literal needs an escape: the tab and the backslash-t text are different strings
		ast.Str("a\\tb"), ast.Str("a\\\\tb"), ast.Str("\\n"), ast.Str("\\\\"),
	}).Draw(g.t, "sval").Clone()
	k := map[string]string{"num": "num", "str": "str", "true": "bool", "false": "bool", "null": "null"}[l.K]
	return &c19Val{kind: k, lit: l}
}

func (g *c19Gen) subject(depth int) *c19Val {
	k := g.n(0, 9, "subjkind")
	switch {
	case k == 3 && depth >= 2 && g.n(0, 2, "unsetsubj") == 0:
		// a variable that was never assigned: == is false against every literal (3.6)
		g.labels["unset-subject"] = true
		return &c19Val{kind: "unset", lit: ast.Id("c19unset")}
	case k <= 3 || depth <= 0:
		return g.scalar()
	case k == 9:
		return &c19Val{kind: "obj", lit: ast.Paren(ast.Obj(ast.KV("k", ast.Num("1"))))}
	}
	n := g.n(0, 4, "alen")
	v := &c19Val{kind: "arr"}
	var items []*ast.Node
	for i := 0; i < n; i++ {
		it := g.subject(depth - 1)
		v.items = append(v.items, it)
		items = append(items, it.lit)
	}
	v.lit = ast.Arr(items...)
	return v
}

// binding names come from a small pool (alternatives of one case commonly
// reuse a name, as in [1, x], [2, x] => x); within one pattern they are unique.
// Every pool name is also a global assigned at the start of the rule, so that a
// name NOT bound by the selected alternative reads as the outer value.
var c19Pool = []string{"x", "_", "y", "z", "w", "p", "q", "r9", "s9", "t9", "u9", "v9", "k9"}

func (g *c19Gen) fresh() string {
	for _, n := range c19Pool {
		if !g.inPattern[n] && rapid.IntRange(0, 2).Draw(g.t, "takename") > 0 {
			g.inPattern[n] = true
			return n
		}
	}
	for _, n := range c19Pool {
		if !g.inPattern[n] {
			g.inPattern[n] = true
			return n
		}
	}
	g.bind++
	n := fmt.Sprintf("b%d", g.bind)
	g.extra = append(g.extra, n)
	return n
}

// pattern builds a pattern aimed at v: matching it (hit) or not.
func (g *c19Gen) pattern(v *c19Val, hit bool, depth int, names *[]string) *ast.Node {
	if hit {
		switch {
		case v.kind == "unset", g.n(0, 2, "ident") == 0:
			nm := g.fresh()
			*names = append(*names, nm)
			return ast.Id(nm)
		case v.kind == "arr" && depth > 0:
			var subs []*ast.Node
			for _, it := range v.items {
				subs = append(subs, g.pattern(it, true, depth-1, names))
			}
			g.labels["array-pattern"] = true
			if depth < 2 {
				g.labels["nested-array-pattern"] = true
			}
			return ast.Arr(subs...)
		case v.kind == "arr" || v.kind == "obj":
			nm := g.fresh()
			*names = append(*names, nm)
			return ast.Id(nm)
		}
		// an equal literal; 1 and "1" are == (numeric comparison), so vary the spelling
		if v.kind == "num" && g.n(0, 3, "asstr") == 0 {
			return ast.Str(string(v.lit.S))
		}
		return v.lit.Clone()
	}
	// a miss
	switch {
	case v.kind == "arr" && depth > 0 && g.n(0, 3, "arrmiss") > 0:
		n := len(v.items)
		switch g.n(0, 2, "misskind") {
		case 0: // wrong length
			var subs []*ast.Node
			m := n + 1
			if n > 0 && g.b("shorter") {
				m = n - 1
			}
			for i := 0; i < m; i++ {
				nm := g.fresh()
				*names = append(*names, nm)
				subs = append(subs, ast.Id(nm))
			}
			g.labels["array-pattern-wrong-length"] = true
			return ast.Arr(subs...)
		default: // right length, one element misses
			if n == 0 {
				return ast.Arr(ast.Id(g.fresh()))
			}
			bad := g.n(0, n-1, "badpos")
			var subs []*ast.Node
			for i, it := range v.items {
				if i == bad && it.kind != "arr" && it.kind != "obj" {
					subs = append(subs, ast.Num("77"))
				} else if i == bad && g.n(0, 2, "litvscontainerelem") == 0 {
					// a literal against a container element: the comparison is a runtime error
					subs = append(subs, ast.Num("1"))
					g.labels["literal-vs-container-element"] = true
				} else if i == bad && it.kind == "arr" && len(it.items) > 0 && g.b("innerprefix") {
					// a nested array pattern that matches a proper prefix of the inner array: the
					// lengths differ, so it does not match
					var inner []*ast.Node
					for _, e := range it.items[:len(it.items)-1] {
						inner = append(inner, g.pattern(e, true, 0, names))
					}
					subs = append(subs, ast.Arr(inner...))
					g.labels["nested-array-pattern-shorter-than-inner-array"] = true
				} else if i == bad {
					subs = append(subs, ast.Arr(ast.Id(g.fresh()), ast.Id(g.fresh()), ast.Id(g.fresh()), ast.Id(g.fresh()), ast.Id(g.fresh())))
				} else {
					subs = append(subs, g.pattern(it, true, depth-1, names))
				}
			}
			g.labels["array-pattern-element-miss"] = true
			return ast.Arr(subs...)
		}
	case v.kind == "arr" || v.kind == "obj":
		// a literal against a container is a comparison error unless it is null
		if g.n(0, 5, "containerlit") == 0 {
			g.labels["literal-vs-container"] = true
			return ast.Num("1")
		}
		return ast.Null()
	case v.kind == "unset":
		return rapid.SampledFrom([]*ast.Node{ast.Num("0"), ast.False(), ast.Str(""), ast.Str("abc"), ast.Null(), ast.Num("77"), ast.Arr()}).Draw(g.t, "unsetmiss").Clone()
	default:
		if g.n(0, 3, "arrvsscalar") == 0 {
			g.labels["array-pattern-vs-scalar"] = true
			return ast.Arr(ast.Id(g.fresh()))
		}
		return rapid.SampledFrom([]*ast.Node{ast.Num("77"), ast.Num("78"), ast.Str("77.5")}).Draw(g.t, "misslit").Clone()
	}
}

func (g *c19Gen) body(ci int, names []string, ctx string) *ast.Node {
	// names bound by other alternatives of this case must read as the outer variables
	var others []string
	for _, n := range c19Pool {
		if g.caseNames[n] {
			bound := false
			for _, b := range names {
				if b == n {
					bound = true
				}
			}
			if !bound {
				others = append(others, n)
			}
		}
	}
	if len(others) > 0 && g.n(0, 1, "readothers") == 0 {
		g.labels["body-reads-name-of-other-alternative"] = true
		items := []*ast.Node{ast.Str(fmt.Sprintf("o%d", ci))}
		for _, nm := range names {
			items = append(items, ast.Id(nm))
		}
		for _, nm := range others {
			items = append(items, ast.Id(nm))
		}
		if g.n(0, 1, "othersblock") == 0 {
			return ast.Block(ast.Print(items...))
		}
		return ast.Arr(items...)
	}
	if g.n(0, 7, "oneexprblock") == 0 {
		// a block body that is one expression statement: the case still yields null
		g.labels["block-body-of-one-expression-statement"] = true
		var e *ast.Node
		switch g.n(0, 2, "oneexpr") {
		case 0:
			e = ast.Set(ast.Id("glob"), ast.Str(fmt.Sprintf("B%d", ci)))
		case 1:
			e = ast.Str(fmt.Sprintf("B%d", ci))
			if len(names) > 0 {
				e = ast.Id(names[0])
			}
		default:
			e = ast.Match(ast.Num("1"), ast.Case(ast.Str(fmt.Sprintf("B%d", ci)), ast.Num("1")))
		}
		return ast.Block(ast.ExprS(e))
	}
	if g.n(0, 2, "blockbody") == 0 {
		args := []*ast.Node{ast.Str(fmt.Sprintf("C%d", ci))}
		for _, nm := range names {
			args = append(args, ast.Id(nm))
		}
		stmts := []*ast.Node{ast.Print(args...)}
		if len(names) > 0 && g.b("assignglobal") {
			stmts = append(stmts, ast.ExprS(ast.Set(ast.Id("glob"), ast.Id(names[0]))))
		}
		switch g.n(0, 7, "ctl") {
		case 0:
			if ctx == "function" {
				stmts = append(stmts, ast.Return(ast.Str(fmt.Sprintf("ret%d", ci))))
				g.labels["return-in-block-body"] = true
			}
		case 1:
			if ctx == "rule" || ctx == "loop" {
				stmts = append(stmts, ast.Next())
				g.labels["next-in-block-body"] = true
			}
		case 2:
			if ctx == "loop" {
				stmts = append(stmts, ast.Continue())
				g.labels["continue-in-block-body"] = true
			}
		}
		g.labels["block-body"] = true
		return ast.Block(stmts...)
	}
	if len(names) > 0 {
		g.labels["binding-used-in-body"] = true
		switch g.n(0, 5, "bodyform") {
		case 5:
			// an expression body that is left by next (raised in a called function): the case's
			// frame is gone all the same when the rules run for the next element
			if ctx == "rule" || ctx == "loop" {
				g.labels["next-through-expression-body"] = true
				return ast.Call(ast.Id("c19skip"), ast.Id(names[0]))
			}
			return ast.Id(names[0])
		case 4:
			// a match directly inside this body that binds the same name again: the outer
			// binding is back once the inner case has finished
			nm := names[0]
			inner := ast.Match(ast.Arr(ast.Str("inner"), ast.Id(nm)), ast.Case(ast.Arr(ast.Str("in"), ast.Id(nm), ast.Id("c19o")), ast.Arr(ast.Id(nm), ast.Id("c19o"))))
			g.labels["match-nested-in-case-body"] = true
			if g.b("nestedblock") {
				return ast.Block(ast.Print(ast.Str(fmt.Sprintf("C%d:before", ci)), ast.Id(nm)), ast.Print(ast.Str("inner:"), inner), ast.Print(ast.Str(fmt.Sprintf("C%d:after", ci)), ast.Id(nm), ast.Is(ast.Id("c19o"), "unknown")))
			}
			return ast.Arr(ast.Id(nm), inner, ast.Id(nm))
		case 0:
			return ast.Id(names[len(names)-1])
		case 1:
			items := []*ast.Node{ast.Str(fmt.Sprintf("c%d", ci))}
			for _, nm := range names {
				items = append(items, ast.Id(nm))
			}
			return ast.Arr(items...)
		case 2:
			return ast.Bin("+", ast.Id(names[0]), ast.Num("100"))
		}
		return ast.Bin("+", ast.Str(fmt.Sprintf("c%d:", ci)), ast.Id(names[0]))
	}
	return ast.Str(fmt.Sprintf("c%d", ci))
}

func (g *c19Gen) match(subj *ast.Node, v *c19Val, ctx string) *ast.Node {
	ncases := g.n(1, 5, "ncases")
	hitCase := g.n(0, ncases, "hitcase") // == ncases: nothing matches
	var cases []*ast.Node
	for ci := 0; ci < ncases; ci++ {
		nalts := g.n(1, 3, "nalts")
		g.caseNames = map[string]bool{}
		hitAlt := -1
		if ci == hitCase {
			hitAlt = g.n(0, nalts-1, "hitalt")
		}
		var pats []*ast.Node
		var names []string
		for ai := 0; ai < nalts; ai++ {
			var altNames []string
			g.inPattern = map[string]bool{}
			// after the selected alternative anything may follow: matching or not
			hit := ai == hitAlt || (ci > hitCase && g.b("laterhit")) || (ci == hitCase && ai > hitAlt && g.b("laterhit2"))
			p := g.pattern(v, hit, 2, &altNames)
			if ci > hitCase && g.n(0, 5, "poison") == 0 {
				// a later case whose pattern would fault if it were tried
				p = ast.Str("\\q")
				g.labels["poisoned-later-pattern"] = true
			}
			pats = append(pats, p)
			for n := range g.inPattern {
				g.caseNames[n] = true
			}
			if ai == hitAlt {
				names = altNames
			}
		}
		if ci != hitCase {
			names = nil // bindings of cases not known to be selected are not used
		}
		if ci == hitCase && (hitAlt > 0 || ci > 0) {
			g.labels["selected-not-first"] = true
		}
		cases = append(cases, ast.Case(g.body(ci, names, ctx), pats...))
	}
	if hitCase == ncases {
		g.labels["nothing-matches"] = true
	}
	if ncases >= 2 {
		g.labels["multi-case"] = true
	}
	return ast.Match(subj, cases...)
}

func genC19(t *rapid.T) (*DCase, map[string]bool) {
	g := &c19Gen{t: t, labels: map[string]bool{}, inPattern: map[string]bool{}, caseNames: map[string]bool{}}
	set := func(n string, v *ast.Node) *ast.Node { return ast.ExprS(ast.Set(ast.Id(n), v)) }
	var items []*ast.Node
	var stmts []*ast.Node
	// (from the second element on, the names hold what the rule left in them for the
	// previous element: read them before they are set again, so that a binding that
	// outlived its case shows)
	top := []*ast.Node{ast.Str("TOP")}
	for _, n := range c19Pool[:6] {
		top = append(top, ast.Id(n))
	}
	stmts = append(stmts, ast.If(ast.Bin(">", ast.Id("$index"), ast.Num("0")), ast.Block(ast.Print(top...))))
	stmts = append(stmts, set("glob", ast.Num("0")))
	for _, n := range c19Pool {
		stmts = append(stmts, set(n, ast.Str("outer-"+n)))
	}
	nm := g.n(1, 3, "nmatches")
	fcount := 0
	for k := 0; k < nm; k++ {
		v := g.subject(3)
		var subj *ast.Node
		switch sf := g.n(0, 2, "subjform"); {
		case sf == 0 || v.kind == "unset":
			// (an unset subject is named directly: it cannot be stored first)
			subj = v.lit.Clone()
		default:
			sv := fmt.Sprintf("s%d", k)
			stmts = append(stmts, set(sv, v.lit.Clone()))
			subj = ast.Id(sv)
		}
		r := fmt.Sprintf("r%d", k)
		use := g.n(0, 5, "use")
		if v.kind == "unset" && use == 3 {
			use = 1
		}
		switch use {
		case 0: // statement
			stmts = append(stmts, ast.ExprS(g.match(subj, v, "rule")))
			g.labels["match-as-statement"] = true
		case 1: // print argument
			stmts = append(stmts, ast.Print(ast.Str("P"), g.match(subj, v, "rule")))
			g.labels["match-as-print-argument"] = true
		case 2: // operand
			stmts = append(stmts, set(r, ast.Bin("+", ast.Str("<"), g.match(subj, v, "rule"))), ast.Print(ast.Str("R"), ast.Id(r)))
			g.labels["match-as-operand"] = true
		case 3: // function return value
			fn := fmt.Sprintf("f%d", fcount)
			fcount++
			items = append(items, ast.Func(fn, []string{"v"}, ast.Block(ast.Return(g.match(ast.Id("v"), v, "function")), ast.Print(ast.Str("unreachable")))))
			stmts = append(stmts, set(r, ast.Call(ast.Id(fn), subj)), ast.Print(ast.Str("R"), ast.Id(r)))
			g.labels["match-in-function"] = true
			// the same match evaluated again with other subjects, among them values that are ==
			// to the first one without being the same value (1, "1", "1.0", true ...)
			for extra, ne := 0, g.n(0, 3, "moresubjects"); extra < ne; extra++ {
				alt := rapid.SampledFrom([]*ast.Node{
					ast.Num("1"), ast.Str("1"), ast.Str("1.0"), ast.True(), ast.Num("0"), ast.Str("0"), ast.Str(""), ast.False(), ast.Null(), ast.Num("2"), ast.Str("2"),
					ast.Str("a"), ast.Num("5"), ast.Str("5"), ast.Num("1.5"), ast.Str("1.50"), ast.Arr(ast.Num("1")), ast.Arr(ast.Str("1")), ast.Arr(), ast.Arr(ast.Num("0"), ast.Num("2")),
				}).Draw(g.t, "altsubject").Clone()
				stmts = append(stmts, set(r, ast.Call(ast.Id(fn), alt)), ast.Print(ast.Str("R+"), ast.Id(r)))
				g.labels["match-site-reused-with-other-subjects"] = true
			}
		case 4: // inside a loop
			lv := fmt.Sprintf("i%d", k)
			stmts = append(stmts, ast.For(ast.Set(ast.Id(lv), ast.Num("0")), ast.Bin("<", ast.Id(lv), ast.Num("2")), ast.Post("++", ast.Id(lv)),
				ast.Block(set(r, g.match(subj, v, "loop")), ast.Print(ast.Str("L"), ast.Id(lv), ast.Id(r)))))
			g.labels["match-in-loop"] = true
		default:
			stmts = append(stmts, set(r, g.match(subj, v, "rule")), ast.Print(ast.Str("R"), ast.Id(r)))
		}
		stmts = append(stmts, ast.Print(ast.Str("G"), ast.Id("glob"), ast.Id("x"), ast.Id("y"), ast.Id("z"), ast.Id("w")))
	}
	items = append(items, ast.Rule("pattern", nil, ast.Block(stmts...)))
	items = append(items, ast.Rule("pattern", nil, ast.Block(ast.Print(ast.Str("second rule")))),
		ast.Func("c19skip", []string{"c19v"}, ast.Block(ast.Print(ast.Str("skip"), ast.Id("c19v")), ast.Next())))
	return &DCase{Prog: ast.Prog(items...), Files: []DFile{{Name: "in", Docs: []string{"[1,2]"}}}}, g.labels
}

// c19Histories: one match site evaluated 70000 times; what an evaluation leaves behind (a
// failed alternative, a failed array pattern, no matching case at all) never adds up
var c19Histories = []struct{ prog, want string }{
	{"BEGIN { for (i = 0; i < 70000; i++) { r = match ([1, i]) { [2, x] => \"a\", [1, y] => y }\ns = s + r } print s }", "2449965000\n"},
	{"BEGIN { for (i = 0; i < 70000; i++) { r = match ([i + 1, [i]]) { [\"zzz\", v] => 0, [x, [7, 8]] => 0, [x, [y, z]] => 0 }\nif (r is null) { n++ } } print n }", "70000\n"},
	{"BEGIN { for (i = 0; i < 70000; i++) { r = match (i + 1) { [a] => 1, [a, b], [a, b, c] => 2, \"x\" => 3 }\nif (r is null) { n++ } } print n }", "70000\n"},
	{"{ r = match ($) { [2, x] => \"a\", [\"zzz\", v] => \"z\", [k, w] => w }\nt = t + r } END { print t }", "70000\n"},
}

func TestC19(t *testing.T) {
	rec := start(t, "C19", "exploration",
		"1-3 match expressions per program: subjects are scalars of every kind (numeric strings vs numbers, booleans, null), arrays of length 0-4 nested to depth 3, occasionally objects; 1-5 cases with 1-3 alternatives each: literals, identifiers, array patterns nested to depth 2 (aimed to match or to miss: wrong length, one element missing, array pattern against a scalar, literal against a container); expression bodies using the bindings or block bodies with prints, assignments to a global, return / next / continue; later cases may carry a pattern that faults if tried; match used as statement, print argument, operand, function result and inside a loop. Expected output from refjq (DESIGN.md 4.5). Non-trivial: the selected alternative is not the first of the first case, an array pattern misses before a later alternative or case matches, a binding is used in the body, or nothing matches. distinct = distinct program.")
	defer rec.Finish()
	rec.Assume("refjq's match semantics (DESIGN.md 4.5); patterns other than literals, identifiers and array patterns are unspecified and not generated")
	rec.Replayer("match-history", func(raw json.RawMessage) error {
		var prog string
		if err := json.Unmarshal(raw, &prog); err != nil {
			return err
		}
		for _, h := range c19Histories {
			if h.prog == prog {
				var files []run.InFile
				if strings.HasPrefix(h.prog, "{") {
					files = []run.InFile{{Name: "in", Data: []byte("[" + strings.Repeat("[1,1],", 69999) + "[1,1]]")}}
				}
				o := run.InProc(h.prog, files, nil, run.Opts{Budget: 2_000_000_000})
				if o.Class != "ok" || string(o.Stdout) != h.want {
					return fmt.Errorf("70000 evaluations of one match: outcome %s (%s), output %q, want %q", o.Class, o.Msg, clip(string(o.Stdout)), h.want)
				}
			}
		}
		return nil
	})
	rec.Replayer("match", replayDiff(false))
	if rec.ReplayOnly() {
		return
	}
	excl.ArrayAlias = rec.KnownActive("KF-array-alias", false)
	rec.ReplayTier()
	if sh, _ := shardInfo(); sh == 0 {
		var sb strings.Builder
		sb.WriteString("[")
		for k := 0; k < 70000; k++ {
			if k > 0 {
				sb.WriteString(",")
			}
			sb.WriteString("[1,1]")
		}
		sb.WriteString("]")
		for _, h := range c19Histories {
			var files []run.InFile
			if strings.HasPrefix(h.prog, "{") {
				files = []run.InFile{{Name: "in", Data: []byte(sb.String())}}
			}
			o := run.InProc(h.prog, files, nil, run.Opts{Budget: 2_000_000_000})
			rec.Case(h.prog, true, "history-of-70000-matches")
			if o.Class != "ok" || string(o.Stdout) != h.want {
				rec.Violation("match-history", h.prog, h.prog, fmt.Sprintf("70000 evaluations of one match: outcome %s (%s), output %q, want %q", o.Class, o.Msg, clip(string(o.Stdout)), h.want))
			}
		}
	}
	check(rec, "match-random", scale(15000, 15000000), func(rt *rapid.T) {
		c, labels := genC19(rt)
		var ls []string
		for l := range labels {
			ls = append(ls, l)
		}
		runDiff(rec, rt, "match", c, false, func(d *diffResult) bool {
			return labels["selected-not-first"] || labels["array-pattern-element-miss"] || labels["array-pattern-wrong-length"] ||
				labels["binding-used-in-body"] || labels["nothing-matches"]
		}, ls...)
	})
}
