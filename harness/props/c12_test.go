package props

import (
	"encoding/json"
	"fmt"
	"strings"
	"testing"

	"verif/harness/ast"
	"verif/harness/run"

	"pgregory.net/rapid"
)

// C12 — reported error positions are consistent with, and point into, the
// program text.

type C12Case struct {
	Src   ast.BS  `json:"src"`
	Files []DFile `json:"files,omitempty"`
	Class string  `json:"class"` // expected error class: syntax | runtime
	Start int     `json:"start"` // byte span [Start, End) of the offending construct
	End   int     `json:"end"`
	Fault string  `json:"fault"`
	Exact bool    `json:"exact"` // the column must be exactly Start (single-byte illegal character)
	// Universal: only the universal invariant applies (the fault has no single line)
	Universal bool `json:"universal,omitempty"`
}

// c12Layout decorates the canonical layout: blank lines, comment lines and
// trailing comments (with non-ASCII text), CRLF endings, tabs.
type c12Layout struct {
	t     *rapid.T
	feats map[string]bool
	crlf  bool
}

func (l *c12Layout) Gap([]ast.Tok, int) string {
	switch rapid.IntRange(0, 39).Draw(l.t, "gap") {
	case 0, 1, 2, 3:
		l.feats["tab"] = true
		return "\t"
	case 4, 5, 6, 7:
		return "  "
	case 8:
		// a line far longer than a terminal is wide, with whatever follows far to the right
		l.feats["line-longer-than-120-bytes"] = true
		return strings.Repeat(" ", rapid.SampledFrom([]int{70, 125, 260}).Draw(l.t, "widegap"))
	}
	return " "
}

var c12Comments = []string{"# comment", "# é ü 日本語 →", "#", "# \"quoted\" 'text' { } ;", "#\t→\ttabs",
	"# a comment that makes its line longer than any terminal is wide: " + strings.Repeat("lorem ipsum ", 12)}

func (l *c12Layout) nl() string {
	if l.crlf {
		return "\r\n"
	}
	return "\n"
}

func (l *c12Layout) Sep(toks []ast.Tok, i int) string {
	switch rapid.IntRange(0, 11).Draw(l.t, "sep") {
	case 0:
		l.feats["blank-line"] = true
		return l.nl() + l.nl()
	case 1:
		l.feats["comment-line"] = true
		return l.nl() + rapid.SampledFrom(c12Comments).Draw(l.t, "cl") + l.nl()
	case 2:
		l.feats["trailing-comment"] = true
		return " " + rapid.SampledFrom(c12Comments).Draw(l.t, "tc") + l.nl()
	case 3:
		return l.nl() + "\t"
	case 4:
		return l.nl() + "  "
	}
	return l.nl()
}

func (l *c12Layout) Quote(toks []ast.Tok, i int) byte { return ast.DefaultQuote(toks[i].Text) }

func genC12(t *rapid.T) (*C12Case, []string) {
	base := c11Base(t)
	// a leading straight-line BEGIN rule whose statements are certainly executed
	// (runtime faults go here), with multi-byte text before the fault
	lead := []*ast.Node{
		ast.Print(ast.Str("héllo → 日本")),
		// (an earlier bare $: a fault anchored at a later $ must not be reported here)
		ast.ExprS(ast.Set(ast.Id("c12d"), ast.Is(ast.Dollar(), "null"))),
		ast.ExprS(ast.Set(ast.Id("ê"), ast.Num("1"))),
		ast.Print(ast.Id("ê"), ast.Str("ü")),
		ast.ExprS(ast.Set(ast.Id("lead"), ast.Num("2"))),
		ast.Print(ast.Str("a string literal\nthat spans\n\nseveral lines")),
		ast.ExprS(ast.Set(ast.Id("re"), ast.Regex("multi\nline regex"))),
		ast.Print(ast.Str("\n")),
	}
	nlead := rapid.IntRange(0, len(lead)).Draw(t, "nlead")
	// the rule that holds the reached faults: mostly BEGIN, now and then the first BEGINFILE or
	// pattern rule of a run over one or two input files (an error keeps its position whatever
	// rule it is raised in and however many files are being read)
	leadKind := "BEGIN"
	files := base.Files
	if len(files) > 0 && len(files[0].Docs) > 0 && strings.TrimSpace(files[0].Docs[0]) != "" && strings.TrimSpace(files[0].Docs[0]) != "[]" {
		switch rapid.IntRange(0, 4).Draw(t, "leadkind") {
		case 0:
			leadKind = "BEGINFILE"
		case 1:
			leadKind = "pattern"
		}
		if leadKind != "BEGIN" && rapid.Bool().Draw(t, "twofiles") {
			files = append(append([]DFile{}, files...), DFile{Name: "second", Docs: []string{"[1]"}})
		}
	}
	leadRule := ast.Rule(leadKind, nil, ast.Block(lead[:nlead]...))
	prog := ast.Prog(append([]*ast.Node{leadRule}, base.Prog.C...)...)
	r := ast.Render(prog, ast.Full)
	raw := func(s string) ast.Tok { return ast.Tok{Text: s, Kind: ast.TRaw} }
	sep := ast.Tok{Kind: ast.TSep}
	c := &C12Case{Files: files}
	var labels []string

	kind := rapid.SampledFrom([]string{"L", "L", "S", "K", "A", "R", "R", "M", "M", "U", "E", "D", "F"}).Draw(t, "faultkind")
	if kind == "D" && rapid.IntRange(0, 7).Draw(t, "deepkept") != 0 {
		kind = "R" // (a run into the depth limit costs about as much as a hundred other cases)
	}
	sub0, sub1 := -1, -1 // byte range of the fault inside a multi-line raw token
	var toks []ast.Tok
	var f0, f1 int // token index range of the fault
	positions := c11StmtPositions(prog, r)
	pick := func(filter func(p c11Pos) bool) (c11Pos, bool) {
		var cands []c11Pos
		for _, p := range positions {
			if filter(p) {
				cands = append(cands, p)
			}
		}
		if len(cands) == 0 {
			return c11Pos{}, false
		}
		return cands[rapid.IntRange(0, len(cands)-1).Draw(t, "pos")], true
	}
	insertStmt := func(p c11Pos, text string) {
		toks = insertToks(r, p.tok, raw(text), sep)
		f0, f1 = p.tok, p.tok
	}
	switch kind {
	case "L":
		ch := rapid.SampledFrom([]string{"@", "^", "?", "`", "&", "|", "\\", "é", "→", "日", "\x80", "\x97", "\xa9", "\xbf", "\xd7", "\xf7", "\x00", "\x01", "\x0b", "\x0c", "\x85", "\xa0", "\x1b"}).Draw(t, "char")
		at := rapid.IntRange(0, len(r.Toks)).Draw(t, "boundary")
		toks = insertToks(r, at, raw(ch))
		f0, f1 = at, at
		c.Class, c.Fault = "syntax", fmt.Sprintf("illegal character %q", ch)
		c.Exact = len(ch) == 1
		if len(ch) > 1 {
			labels = append(labels, "fault-inside-multibyte-character")
		}
	case "S":
		tk := rapid.SampledFrom([]string{")", "]", "=>", ":"}).Draw(t, "stray")
		p, _ := pick(func(c11Pos) bool { return true })
		insertStmt(p, tk)
		c.Class, c.Fault = "syntax", "stray "+tk
	case "K":
		kw := rapid.SampledFrom([]string{"return", "break", "continue"}).Draw(t, "kw")
		p, ok := pick(func(p c11Pos) bool {
			if kw == "return" {
				return !p.inFunction
			}
			return p.loops == 0
		})
		if !ok {
			p, _ = pick(func(c11Pos) bool { return true })
			kw = ")"
		}
		insertStmt(p, kw)
		c.Class, c.Fault = "syntax", kw+" out of context"
	case "A":
		form := rapid.SampledFrom([]string{"1 = 2", "\"s\" = 2", "a + b = 2", "true = 1", "\"é\" = 3"}).Draw(t, "target")
		p, _ := pick(func(c11Pos) bool { return true })
		insertStmt(p, form)
		c.Class, c.Fault = "syntax", "invalid assignment "+form
	case "M":
		// a construct spanning several lines with the fault confined to one of them
		kit := rapid.SampledFrom(c12MultiLine).Draw(t, "mkit")
		body := kit.text
		if rapid.Bool().Draw(t, "mcrlf") {
			body = strings.ReplaceAll(body, "\n", "\r\n")
		}
		sub0 = strings.Index(body, "«")
		body = strings.Replace(body, "«", "", 1)
		sub1 = strings.Index(body, "»")
		body = strings.Replace(body, "»", "", 1)
		blk := leadRule.C[1]
		var cands []int
		for _, s := range blk.C {
			cands = append(cands, r.First[s])
		}
		cands = append(cands, r.Last[blk])
		at := cands[rapid.IntRange(0, len(cands)-1).Draw(t, "leadpos")]
		toks = insertToks(r, at, raw(body), sep)
		f0, f1 = at, at
		c.Class, c.Fault = kit.class, "multi-line construct: "+kit.name
		c.Exact = kit.exact
		labels = append(labels, "fault-inside-multi-line-construct")
	case "F":
		// the fault sits in the body of a function written on lines of its own; the function is
		// called (from the leading rule) inside a construct on another line: the error keeps the
		// position where it happened, whatever construct the value was meant for
		body := rapid.SampledFrom([]string{"return «1 / c12p»", "c12q = «[ ] < c12p»\n  return c12q", "return «$c12nope»", "return [ 1 ,\n    «c12p ( )» ]"}).Draw(t, "fbody")
		fn := "function c12bad ( c12p ) {\n  " + body + "\n}"
		if rapid.Bool().Draw(t, "fcrlf") {
			fn = strings.ReplaceAll(fn, "\n", "\r\n")
		}
		sub0 = strings.Index(fn, "«")
		fn = strings.Replace(fn, "«", "", 1)
		sub1 = strings.Index(fn, "»")
		fn = strings.Replace(fn, "»", "", 1)
		call := rapid.SampledFrom([]string{
			"for ( c12e in c12bad ( 0 ) ) { }", "for ( c12e , c12i in c12bad ( 0 ) ) { }", "c12x = [ 1 , c12bad ( 0 ) ]", "print c12bad ( 0 )", "if ( c12bad ( 0 ) ) { }", "while ( c12bad ( 0 ) ) { }",
			"c12x = match ( c12bad ( 0 ) ) { c12w => 1 }", "c12x = match ( 1 ) { c12w => c12bad ( 0 ) }", "c12x = c11fun ( c12bad ( 0 ) )", "c12x = { k : c12bad ( 0 ) }", "c12x = [ 1 ] [ c12bad ( 0 ) ]",
			"c12x = c12bad ( 0 ) . k", "c12x = \"s\" . split ( c12bad ( 0 ) )", "printf ( \"%v\" , c12bad ( 0 ) )", "c12x = 1 + c12bad ( 0 )", "c12x = ! c12bad ( 0 )", "for ( c12i = c12bad ( 0 ) ; false ; c12i ++ ) { }",
			"c12y . k = c12bad ( 0 )", "c12x = 1\nc12x += c12bad ( 0 )", "c12x = c12bad ( 0 ) is number", "c12x = \"a\" ~ c12bad ( 0 )",
		}).Draw(t, "fcall")
		blk := leadRule.C[1]
		var cands []int
		for _, s := range blk.C {
			cands = append(cands, r.First[s])
		}
		cands = append(cands, r.Last[blk])
		at := cands[rapid.IntRange(0, len(cands)-1).Draw(t, "leadpos")]
		toks = insertToks(r, at, raw(call), sep)
		// the function goes in front of everything (token 0), on lines of its own
		toks = append([]ast.Tok{raw(fn), {Kind: ast.TSep, NoSemi: true, HardNL: true}}, toks...)
		f0, f1 = 0, 0
		c.Class, c.Fault = "runtime", "fault inside a function called from: "+call
		labels = append(labels, "fault-in-a-function-called-from-another-line")
	case "D":
		// a recursion through match cases that runs into the depth limit: the error carries a
		// position like any other, whichever frame (a call's or a case's) crosses the limit
		rec := rapid.SampledFrom([]string{
			"function c12rec ( n ) { return match ( n ) { k => c12rec ( [ k ] ) } }",
			"function c12rec ( n ) { match ( n ) { k => { return c12rec ( k + 1 ) } } }",
			"function c12rec ( n ) { return c12rec ( n + 1 ) }",
		}).Draw(t, "recshape")
		call := "c12x = c12rec ( 0 )"
		var wrappers []string
		for w, nw := 0, rapid.IntRange(0, 2).Draw(t, "wrappers"); w < nw; w++ {
			inner := "c12rec ( 0 )"
			if w > 0 {
				inner = fmt.Sprintf("c12w%d ( )", w-1)
			}
			wrappers = append(wrappers, fmt.Sprintf("function c12w%d ( ) { return %s }", w, inner))
			call = fmt.Sprintf("c12x = c12w%d ( )", w)
		}
		blk := leadRule.C[1]
		var cands []int
		for _, s := range blk.C {
			cands = append(cands, r.First[s])
		}
		cands = append(cands, r.Last[blk])
		at := cands[rapid.IntRange(0, len(cands)-1).Draw(t, "leadpos")]
		toks = insertToks(r, at, raw(call), sep)
		// the functions go in front of everything, the recursive one first
		front := []ast.Tok{raw(rec), sep}
		for _, w := range wrappers {
			front = append(front, raw(w), sep)
		}
		toks = append(front, toks...)
		f0, f1 = 0, 0
		c.Class, c.Fault = "runtime", "depth limit reached inside "+rec
		labels = append(labels, "fault-is-a-limit")
	case "U":
		// an unterminated string or regex literal as the last thing in the program
		open := rapid.SampledFrom([]string{"\"abc", "'abc", "\"", "/abc", "'é→"}).Draw(t, "open")
		toks = insertToks(r, len(r.Toks), raw("c12x = "+open))
		f0, f1 = len(r.Toks), len(r.Toks)
		sub0, sub1 = len("c12x = "), len("c12x = "+open)
		c.Class, c.Fault = "syntax", "unterminated literal "+open
	case "E":
		// the program ends too early: only the universal invariant applies
		tail := rapid.SampledFrom([]string{"{", "BEGIN {", "BEGIN { c12x = (", "BEGIN { c12x = [ 1 ,", "BEGIN { c12x = 1 +", "function", "function c12f (", "BEGIN { if (", "BEGIN { c12x = match ( 1 ) {", "BEGIN { print"}).Draw(t, "tail")
		toks = insertToks(r, len(r.Toks), raw(tail))
		f0, f1 = len(r.Toks), len(r.Toks)
		c.Class, c.Fault = "syntax", "program ends after "+tail
		c.Universal = true
	case "R":
		kits := c11ExprKits()
		for k := range kits {
			// (faults inside a helper function, not on the line of the kit)
			if strings.HasSuffix(k, "at-a-site") {
				delete(kits, k)
			}
		}
		names := sortedKeys(kits)
		name := rapid.SampledFrom(names).Draw(t, "kit")
		var text string
		if rapid.IntRange(0, 3).Draw(t, "stmtkit") == 0 {
			sk := c11StmtKits()
			for k := range sk {
				// (these two fault inside a helper function, not on the line of the kit)
				if strings.HasSuffix(k, "at-a-site") {
					delete(sk, k)
				}
			}
			name = rapid.SampledFrom(sortedKeys(sk)).Draw(t, "skit")
			var parts []string
			for _, st := range sk[name] {
				parts = append(parts, ast.Source(st))
			}
			text = strings.Join(parts, " ; ")
		} else {
			text = "c12x = " + ast.Source(kits[name])
		}
		// a statement position inside the leading BEGIN block (reached by construction)
		blk := leadRule.C[1]
		var cands []int
		for _, s := range blk.C {
			cands = append(cands, r.First[s])
		}
		cands = append(cands, r.Last[blk]) // before the closing brace
		at := cands[rapid.IntRange(0, len(cands)-1).Draw(t, "leadpos")]
		toks = insertToks(r, at, raw(text), sep)
		f0, f1 = at, at
		c.Class, c.Fault = "runtime", "kit "+name
	}
	lay := &c12Layout{t: t, feats: map[string]bool{}, crlf: rapid.IntRange(0, 2).Draw(t, "crlf") == 0}
	if lay.crlf {
		lay.feats["crlf"] = true
	}
	r2 := &ast.Rendering{Toks: toks}
	text := r2.Join(lay)
	// whitespace and comments around the whole program
	prefix := rapid.SampledFrom([]string{"", "", "\n", "\n\n\n", "  ", "\t", "# leading comment\n", "\n  \n\t", " \n", "\r\n\r\n", "#\n\n   "}).Draw(t, "prefix")
	suffix := ""
	if kind != "U" {
		suffix = rapid.SampledFrom([]string{"", "", "\n", "\n\n", "  ", "\n# trailing comment", " # c", "\r\n", "\n\t\n"}).Draw(t, "suffix")
	}
	if prefix != "" {
		lay.feats["leading-whitespace-or-comment"] = true
	}
	c.Src = ast.BS(prefix + text.Src + suffix)
	c.Start, c.End = len(prefix)+text.Start[f0], len(prefix)+text.End[f1]
	if sub0 >= 0 {
		c.Start, c.End = len(prefix)+text.Start[f0]+sub0, len(prefix)+text.Start[f0]+sub1
	}
	text.Src = string(c.Src)
	labels = append(labels, "fault:"+kind)
	for f := range lay.feats {
		labels = append(labels, "context:"+f)
	}
	line := 1 + strings.Count(text.Src[:c.Start], "\n")
	if line >= 2 {
		labels = append(labels, "line>=2")
	}
	pre := text.Src[:c.Start]
	if len(pre) != len([]rune(pre)) {
		labels = append(labels, "context:multibyte-before")
	}
	switch {
	case line <= 3:
		labels = append(labels, "linebucket:1-3")
	case line <= 10:
		labels = append(labels, "linebucket:4-10")
	default:
		labels = append(labels, "linebucket:>10")
	}
	return c, labels
}

type c12MLKit struct {
	name, text, class string
	exact             bool
}

// the fault sits between « and »
var c12MultiLine = []c12MLKit{
	{"division by zero in an array literal", "c12x = [ 1 ,\n  2 ,\n  «1 / 0» ,\n  4 ]", "runtime", false},
	{"modulo zero in a block", "if ( true ) {\n  c12y = 1\n  c12x = «1 % 0»\n  c12z = 2\n}", "runtime", false},
	{"function copied into an object literal", "c12x = { a : 1 ,\n  b : «c11fun» ,\n  c : 3 }", "runtime", false},
	{"function copied into an array literal", "c12x = [ 1 ,\n  «c11fun» ,\n  3 ]", "runtime", false},
	{"container comparison in an object literal", "c12x = { a : 1 ,\n  b : «[ ] < 1» }", "runtime", false},
	{"unknown $-variable as a call argument", "c12x = c11fun (\n  1 ,\n  «$nope»\n)", "runtime", false},
	{"invalid regex in a match case", "c12x = match ( 1 ) {\n  2 => 3 ,\n  c12w => «\"a\" ~ \"(\"»\n}", "runtime", false},
	{"calling null in an index expression", "c12x = [ 1 , 2 ] [\n  «c12nofn ( )»\n]", "runtime", false},
	// one of several constructs of the same kind is at fault: not the first, not the last
	{"invalid escape in the middle one of three quoted keys", "c12x = { \"a\" : 1 ,\n  «\"b\\q\"» : 2 ,\n  \"c\" : 3 }", "runtime", false},
	{"invalid escape in the first of three quoted keys on one line", "c12x = { «\"a\\q\"» : 1 , \"bbbbbbbb\" : 2 , \"cccccccccccc\" : 3 }", "runtime", false},
	{"invalid escape in the middle one of three strings", "c12x = [ \"a\" ,\n  «\"b\\q\"» ,\n  \"c\" ]", "runtime", false},
	{"invalid escape in the first of two member values", "c12x = { a : «\"\\q\"» ,\n  b : \"fine\" ,\n  \"c\" : \"fine\" }", "runtime", false},
	{"division by zero in the first of three call arguments", "c12x = c11fun (\n  «1 / 0» ,\n  2 / 1 ,\n  3 / 1\n)", "runtime", false},
	{"unknown $-variable as the second loop variable", "for ( c12a ,\n  «$c12nope» in [ 1 ] ) { }", "runtime", false},
	{"unknown $-variable as the second loop variable, on one line", "for ( c12a , «$c12nope» in [ 1 ] ) { }", "runtime", false},
	{"unknown $-variable as the loop variable", "for (\n  «$c12nope» ,\n  c12b in [ 1 ] ) { }", "runtime", false},
	{"illegal character in an array literal", "c12x = [ 1 ,\n  2 «@» ,\n  3 ]", "syntax", true},
	{"illegal character in an object literal", "c12x = { a : 1 ,\n\n  b «?» : 2 }", "syntax", true},
	{"invalid assignment in a block", "if ( true ) {\n  c12y = 1\n  «1 = 2»\n}", "syntax", false},
	{"stray bracket in call arguments", "c12x = c11fun (\n  1 ,\n  «]»\n)", "syntax", false},
}

func c12Check(c *C12Case) string {
	src := string(c.Src)
	var files []run.InFile
	for _, f := range c.Files {
		files = append(files, run.InFile{Name: f.Name, Data: []byte(strings.Join(f.Docs, "\n"))})
	}
	o := run.InProc(src, files, nil, run.Opts{Budget: implBudget})
	if o.Class != c.Class {
		return fmt.Sprintf("%s: expected a %s error, outcome is %s (%s%s)", c.Fault, c.Class, o.Class, o.Msg, o.Panic)
	}
	lines := strings.Split(src, "\n")
	wantLine := 1 + strings.Count(src[:c.Start], "\n")
	lineStart := strings.LastIndexByte(src[:c.Start], '\n') + 1
	if msg := c12Universal(src, o); msg != "" {
		return c.Fault + ": " + msg
	}
	if c.Universal {
		return ""
	}
	if o.Line != wantLine {
		return fmt.Sprintf("%s on line %d is reported on line %d (%q)", c.Fault, wantLine, o.Line, o.Msg)
	}
	_ = lines
	lo, hi := c.Start-lineStart, c.End-lineStart
	if c.Exact {
		if o.Col != lo {
			return fmt.Sprintf("%s at column %d of line %d is reported at column %d (%q)", c.Fault, lo, wantLine, o.Col, o.Msg)
		}
	} else if o.Col < lo || o.Col >= hi {
		return fmt.Sprintf("%s spans columns [%d,%d) of line %d but is reported at column %d (%q)", c.Fault, lo, hi, wantLine, o.Col, o.Msg)
	}
	return ""
}

// c12Universal: every syntax / runtime error carries a 1-based line number and
// exactly the text of that line.
func c12Universal(src string, o run.Outcome) string {
	if o.Class != "syntax" && o.Class != "runtime" {
		return ""
	}
	lines := strings.Split(src, "\n")
	if o.Line < 1 || o.Line > len(lines) {
		return fmt.Sprintf("reported line %d is outside the program (%d lines) (%q)", o.Line, len(lines), o.Msg)
	}
	if o.SrcLine != lines[o.Line-1] {
		return fmt.Sprintf("the quoted source line is not line %d of the program\n quoted: %q\n line %d: %q (%q)", o.Line, o.SrcLine, o.Line, lines[o.Line-1], o.Msg)
	}
	if o.Col < 0 || o.Col > len(o.SrcLine) {
		return fmt.Sprintf("the reported column %d is not a byte offset into the quoted line %q (%d bytes) (%q)", o.Col, o.SrcLine, len(o.SrcLine), o.Msg)
	}
	return ""
}

// c12CLI checks the three diagnostic lines of the binary.
func c12CLI(c *C12Case) string {
	if run.CLIBinary() == "" {
		return ""
	}
	src := string(c.Src)
	o := run.InProc(src, nil, nil, run.Opts{Budget: implBudget})
	if o.Class != "syntax" && o.Class != "runtime" {
		return ""
	}
	res, err := run.CLI(run.CLIOpts{Args: []string{"-f", "prog.jqawk"}, Files: map[string][]byte{"prog.jqawk": []byte(src)}})
	if err != nil || res.TimedOut {
		return ""
	}
	want := fmt.Sprintf("  %s\n  %*s\n%s error on line %d: %s\n", o.SrcLine, o.Col+1, "^", o.Class, o.Line, o.Msg)
	if string(res.Stderr) != want || res.Exit != 1 {
		return fmt.Sprintf("the diagnostic on stderr is not the three documented lines\n got (exit %d): %q\n want (exit 1): %q", res.Exit, res.Stderr, want)
	}
	// the same with -o (to stdout, to a file, to a path that cannot be written): the error of the
	// program is what is reported, in full
	for _, out := range []string{"-", "out.json", "nodir/out.json"} {
		res2, err := run.CLI(run.CLIOpts{Args: []string{"-o", out, "-f", "prog.jqawk"}, Files: map[string][]byte{"prog.jqawk": []byte(src)}})
		if err != nil || res2.TimedOut {
			continue
		}
		if string(res2.Stderr) != want || res2.Exit != 1 {
			return fmt.Sprintf("with -o %s the diagnostic on stderr is not the three documented lines\n got (exit %d): %q\n want (exit 1): %q", out, res2.Exit, res2.Stderr, want)
		}
	}
	return ""
}

func TestC12(t *testing.T) {
	rec := start(t, "C12", "exploration",
		"multi-line programs (1-60 lines: a leading BEGIN block with multi-byte strings and a Latin-1-letter identifier, then a program from the C07 / C08 / C19 generators) laid out with blank lines, comment lines and trailing comments (ASCII and non-ASCII), LF or CRLF endings, tabs; one single-line fault: L = illegal character (@ ^ ? \\ ` & | é → 日 and raw bytes 0x80-0xF7) at any token boundary; S = stray ) ] => : at a statement start; K = return / break / continue out of context; A = invalid assignment target; R = one of 23 runtime kits as its own statement in the leading BEGIN block (reached by construction); M = a construct spanning several lines (array / object literal, call arguments, block, match) with the fault (runtime or syntax) confined to one inner line; U = an unterminated string or regex as the last thing in the program; D = a recursion (plain, or through match cases) that runs into the depth limit, started from BEGIN directly or through one or two wrapper calls, the recursive function written on one line; E = a program that ends too early (universal invariant only). The whole program is preceded by blank lines, indentation or a comment line and followed by trailing newlines, blanks or a comment without newline. The harness records the byte span of the inserted construct. Oracle: expected error class; Line == the fault's line; SrcLine == exactly that line of the program text (a CRLF line keeps its \\r); lineStart-relative span contains Col (equal to the character's offset for single-byte illegal characters); the same universal invariant (Line >= 1, SrcLine is line Line, 0 <= Col <= len(SrcLine)) on every error. CLI sample: stderr is exactly the three documented lines with the caret under column Col. Non-trivial: fault on line >= 2 preceded by a blank line, comment, CRLF or multi-byte text. distinct = distinct program text.")
	defer rec.Finish()
	rec.Assume("the harness renderer's recorded token offsets are the byte span of the inserted construct")
	replay := func(raw json.RawMessage) error {
		var c C12Case
		if err := json.Unmarshal(raw, &c); err != nil {
			return err
		}
		if m := c12Check(&c); m != "" {
			return fmt.Errorf("%s\nprogram:\n%s", m, c.Src)
		}
		return nil
	}
	rec.Replayer("position", replay)
	rec.Replayer("universal", func(raw json.RawMessage) error {
		var c C12Case
		if err := json.Unmarshal(raw, &c); err != nil {
			return err
		}
		src := string(c.Src)
		o := run.InProc(src, []run.InFile{{Name: "in", Data: []byte(`[1,{"a":2}]`)}}, nil, run.Opts{Budget: c01Budget})
		if m := c12Universal(src, o); m != "" {
			return fmt.Errorf("%s\nprogram:\n%s", m, src)
		}
		return nil
	})
	rec.Replayer("cli-diagnostic", func(raw json.RawMessage) error {
		var c C12Case
		if err := json.Unmarshal(raw, &c); err != nil {
			return err
		}
		if m := c12CLI(&c); m != "" {
			return fmt.Errorf("%s", m)
		}
		return nil
	})
	if rec.ReplayOnly() {
		return
	}
	rec.ReplayTier()
	check(rec, "position-random", scale(15000, 6000000), func(rt *rapid.T) {
		c, labels := genC12(rt)
		msg := c12Check(c)
		has := func(l string) bool {
			for _, x := range labels {
				if x == l {
					return true
				}
			}
			return false
		}
		nt := has("line>=2") && (has("context:blank-line") || has("context:comment-line") || has("context:trailing-comment") || has("context:crlf") || has("context:multibyte-before"))
		rec.Case(string(c.Src), nt, labels...)
		rec.Sample(func() interface{} {
			return map[string]interface{}{"program": string(c.Src), "fault": c.Fault, "span": []int{c.Start, c.End}, "class": c.Class}
		})
		if msg != "" {
			rec.Pending("position", c, string(c.Src), msg)
			rt.Fatalf("%s\n%s", msg, c.Src)
		}
	})
	check(rec, "cli-diagnostic", scale(300, 8000), func(rt *rapid.T) {
		c, labels := genC12(rt)
		msg := c12CLI(c)
		rec.Case("cli\x00"+string(c.Src), true, append(labels, "cli")...)
		if msg != "" {
			rec.Pending("cli-diagnostic", c, string(c.Src), msg)
			rt.Fatalf("%s", msg)
		}
	})
}
