module verif/harness

go 1.23

toolchain go1.23.5

require (
	github.com/alligator/jqawk v0.0.0
	pgregory.net/rapid v1.3.0
)

replace github.com/alligator/jqawk => /repo
