//go:build verif

package run

import lang "github.com/alligator/jqawk/src"

// HookAvailable reports whether the cost-budget hook is compiled in.
const HookAvailable = true

func setBudget(n int64) { lang.VerifBudget = n }

func isBudgetPanic(r interface{}) bool {
	_, ok := r.(lang.VerifBudgetExceeded)
	return ok
}
