package run

import (
	"bytes"
	"context"
	"errors"
	"fmt"
	"os"
	"os/exec"
	"path/filepath"
	"sync/atomic"
	"syscall"
	"time"
)

// CLIResult is what one execution of the compiled binary produced.
type CLIResult struct {
	Stdout   []byte
	Stderr   []byte
	Exit     int  // exit status; -1 when killed by a signal
	Signal   string
	TimedOut bool // hard kill by the watchdog: inconclusive, never a verdict
	MaxRSSKB int64
	Dir      string // the private working directory (removed by Cleanup)
}

func (r *CLIResult) Cleanup() {
	if r.Dir != "" {
		os.RemoveAll(r.Dir)
	}
}

// CLIBinary returns the path of the jqawk binary built by the driver.
func CLIBinary() string { return os.Getenv("VERIF_CLI") }

var cliSeq int64

type CLIOpts struct {
	Args    []string
	Stdin   []byte            // nil = empty stdin (never the harness's own stdin)
	Files   map[string][]byte // created in the private directory before the run
	Timeout time.Duration
	KeepDir bool
	// MemLimitKB caps the subprocess's virtual memory (ulimit -v); 0 = the
	// default of 4 GiB. A blow-up then ends in a Go "fatal error: out of memory"
	// in the child instead of endangering the machine.
	MemLimitKB int64
	// StdinFromFile: standard input is a regular file opened for reading (as with `< data.json`)
	// instead of a pipe
	StdinFromFile bool
	// Fifos are created as named pipes in the private directory; a writer delivers the bytes
	// once the binary opens the pipe, then closes it
	Fifos map[string][]byte
}

// CLI runs the binary in a private directory with a scrubbed environment.
func CLI(o CLIOpts) (*CLIResult, error) {
	bin := CLIBinary()
	if bin == "" {
		return nil, errors.New("VERIF_CLI is not set: the driver did not build the binary for this property")
	}
	work := os.Getenv("VERIF_WORK")
	if work == "" {
		work = os.TempDir()
	}
	dir := filepath.Join(work, fmt.Sprintf("cli-%d-%d", os.Getpid(), atomic.AddInt64(&cliSeq, 1)))
	if err := os.MkdirAll(dir, 0o755); err != nil {
		return nil, err
	}
	res := &CLIResult{Dir: dir}
	for name, data := range o.Files {
		p := filepath.Join(dir, name)
		os.MkdirAll(filepath.Dir(p), 0o755)
		if err := os.WriteFile(p, data, 0o644); err != nil {
			return nil, err
		}
	}
	var fifoDone []chan struct{}
	for name, data := range o.Fifos {
		p := filepath.Join(dir, name)
		os.MkdirAll(filepath.Dir(p), 0o755)
		if err := syscall.Mkfifo(p, 0o600); err != nil {
			return nil, err
		}
		done := make(chan struct{})
		fifoDone = append(fifoDone, done)
		go func(p string, data []byte) {
			defer close(done)
			w, err := os.OpenFile(p, os.O_WRONLY, 0) // blocks until the pipe is opened for reading
			if err != nil {
				return
			}
			w.Write(data)
			w.Close()
		}(p, data)
	}
	defer func() {
		// a pipe the binary never opened: let its writer go
		for name := range o.Fifos {
			if r, err := os.OpenFile(filepath.Join(dir, name), os.O_RDONLY|syscall.O_NONBLOCK, 0); err == nil {
				defer r.Close()
			}
		}
		for _, d := range fifoDone {
			select {
			case <-d:
			case <-time.After(2 * time.Second):
			}
		}
	}()
	if o.Timeout == 0 {
		o.Timeout = 20 * time.Second
	}
	ctx, cancel := context.WithTimeout(context.Background(), o.Timeout)
	defer cancel()
	if o.MemLimitKB == 0 {
		o.MemLimitKB = 4 << 20
	}
	shArgs := append([]string{"-c", fmt.Sprintf("ulimit -v %d; exec \"$0\" \"$@\"", o.MemLimitKB), bin}, o.Args...)
	cmd := exec.CommandContext(ctx, "/bin/sh", shArgs...)
	cmd.Dir = dir
	cmd.Env = []string{"PATH=/usr/bin:/bin", "HOME=" + dir, "LANG=C"}
	cmd.Stdin = bytes.NewReader(o.Stdin)
	if o.StdinFromFile {
		sp := filepath.Join(dir, ".stdin-data")
		if err := os.WriteFile(sp, o.Stdin, 0o644); err != nil {
			return nil, err
		}
		sf, err := os.Open(sp)
		if err != nil {
			return nil, err
		}
		defer sf.Close()
		cmd.Stdin = sf
	}
	var so, se bytes.Buffer
	cmd.Stdout, cmd.Stderr = &so, &se
	err := cmd.Run()
	res.Stdout, res.Stderr = so.Bytes(), se.Bytes()
	if ctx.Err() == context.DeadlineExceeded {
		res.TimedOut = true
	}
	if cmd.ProcessState != nil {
		res.Exit = cmd.ProcessState.ExitCode()
		if ws, ok := cmd.ProcessState.Sys().(syscall.WaitStatus); ok && ws.Signaled() {
			res.Signal = ws.Signal().String()
		}
		if ru, ok := cmd.ProcessState.SysUsage().(*syscall.Rusage); ok {
			res.MaxRSSKB = ru.Maxrss
		}
	} else if err != nil {
		if !o.KeepDir {
			res.Cleanup()
		}
		return nil, err
	}
	if !o.KeepDir {
		os.RemoveAll(dir)
		res.Dir = ""
	}
	return res, nil
}

// LooksLikeCrash reports whether stderr shows a Go panic / fatal error / signal.
func LooksLikeCrash(stderr []byte) string {
	for _, marker := range []string{"panic:", "goroutine ", "fatal error:", "SIGSEGV", "runtime error: invalid memory", "[signal "} {
		if bytes.Contains(stderr, []byte(marker)) {
			return marker
		}
	}
	return ""
}
