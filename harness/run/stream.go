package run

import (
	"bytes"
	"errors"
	"fmt"
	"io"
	"os"
	"os/exec"
	"path/filepath"
	"sync"
	"sync/atomic"
	"syscall"
	"time"
)

// Stream drives the binary with an input that arrives piece by piece (on stdin
// or through a FIFO named on the command line) and lets the caller see how much
// output has been produced so far.
type Stream struct {
	cmd   *exec.Cmd
	in    io.WriteCloser
	mu    sync.Mutex
	out   bytes.Buffer
	errb  bytes.Buffer
	done  chan struct{}
	dir   string
	exit  int
	close sync.Once
}

// StartStream starts `jqawk <args...>`; with fifo the input is a FIFO whose
// name is appended to the arguments, otherwise stdin.
func StartStream(args []string, fifo bool) (*Stream, error) {
	bin := CLIBinary()
	if bin == "" {
		return nil, errors.New("VERIF_CLI is not set")
	}
	work := os.Getenv("VERIF_WORK")
	if work == "" {
		work = os.TempDir()
	}
	dir := filepath.Join(work, fmt.Sprintf("stream-%d-%d", os.Getpid(), atomic.AddInt64(&cliSeq, 1)))
	if err := os.MkdirAll(dir, 0o755); err != nil {
		return nil, err
	}
	s := &Stream{dir: dir, done: make(chan struct{})}
	a := append([]string{}, args...)
	var fifoPath string
	if fifo {
		fifoPath = filepath.Join(dir, "in.fifo")
		if err := syscall.Mkfifo(fifoPath, 0o600); err != nil {
			os.RemoveAll(dir)
			return nil, err
		}
		a = append(a, "in.fifo")
	}
	cmd := exec.Command(bin, a...)
	cmd.Dir = dir
	cmd.Env = []string{"PATH=/usr/bin:/bin", "HOME=" + dir, "LANG=C"}
	stdout, err := cmd.StdoutPipe()
	if err != nil {
		os.RemoveAll(dir)
		return nil, err
	}
	cmd.Stderr = &s.errb
	if fifo {
		cmd.Stdin = bytes.NewReader(nil)
	} else {
		w, err := cmd.StdinPipe()
		if err != nil {
			os.RemoveAll(dir)
			return nil, err
		}
		s.in = w
	}
	if err := cmd.Start(); err != nil {
		os.RemoveAll(dir)
		return nil, err
	}
	s.cmd = cmd
	if fifo {
		// opening the write end blocks until the child has opened the FIFO for reading
		opened := make(chan *os.File, 1)
		go func() {
			f, err := os.OpenFile(fifoPath, os.O_WRONLY, 0)
			if err != nil {
				opened <- nil
				return
			}
			opened <- f
		}()
		select {
		case f := <-opened:
			if f == nil {
				s.Kill()
				return nil, errors.New("cannot open the FIFO for writing")
			}
			s.in = f
		case <-time.After(20 * time.Second):
			s.Kill()
			return nil, errors.New("the child never opened the FIFO")
		}
	}
	go func() {
		buf := make([]byte, 4096)
		for {
			n, err := stdout.Read(buf)
			if n > 0 {
				s.mu.Lock()
				s.out.Write(buf[:n])
				s.mu.Unlock()
			}
			if err != nil {
				break
			}
		}
		cmd.Wait()
		s.exit = cmd.ProcessState.ExitCode()
		close(s.done)
	}()
	return s, nil
}

func (s *Stream) Write(b []byte) error {
	_, err := s.in.Write(b)
	return err
}

// Output returns what has been written to stdout so far.
func (s *Stream) Output() []byte {
	s.mu.Lock()
	defer s.mu.Unlock()
	return append([]byte{}, s.out.Bytes()...)
}

// WaitOutput waits until stdout has at least n bytes, the child has exited, or
// the patience is used up.
func (s *Stream) WaitOutput(n int, patience time.Duration) bool {
	deadline := time.Now().Add(patience)
	for {
		if len(s.Output()) >= n {
			return true
		}
		select {
		case <-s.done:
			return len(s.Output()) >= n
		default:
		}
		if time.Now().After(deadline) {
			return false
		}
		time.Sleep(2 * time.Millisecond)
	}
}

// CloseInput closes the input (end of stream).
func (s *Stream) CloseInput() { s.close.Do(func() { s.in.Close() }) }

// Finish closes the input, waits for the child and returns exit status, stdout, stderr.
func (s *Stream) Finish(patience time.Duration) (exit int, stdout, stderr []byte, ok bool) {
	s.CloseInput()
	select {
	case <-s.done:
		ok = true
	case <-time.After(patience):
		s.cmd.Process.Kill()
		<-s.done
	}
	os.RemoveAll(s.dir)
	return s.exit, s.Output(), s.errb.Bytes(), ok
}

func (s *Stream) Kill() {
	if s.cmd != nil && s.cmd.Process != nil {
		s.cmd.Process.Kill()
	}
	os.RemoveAll(s.dir)
}
