// Package run executes the implementation under test: in-process through the
// public library API, and as a subprocess through the compiled binary.
package run

import (
	"bytes"
	"fmt"
	"io"
	"runtime/debug"

	lang "github.com/alligator/jqawk/src"
)

type InFile struct {
	Name   string
	Data   []byte
	Reader io.Reader // if set, used instead of Data
}

// Outcome of one in-process run.
type Outcome struct {
	Class    string // ok | syntax | runtime | json | other | panic | budget
	Msg      string
	Line     int
	Col      int
	SrcLine  string
	FileName string
	Stdout   []byte
	Panic    string
	Stack    string

	// -o view: GetRootJson of the returned evaluator (only when Class == ok and
	// WantRoot was requested)
	RootJSON  string
	RootErr   string
	RootPanic string
	HasEval   bool
}

type Opts struct {
	Budget   int64 // cost budget for the hook; 0 or negative = unlimited
	Fuzzing  bool
	WantRoot bool
}

func classify(err error, o *Outcome) {
	switch e := err.(type) {
	case nil:
		o.Class = "ok"
	case lang.SyntaxError:
		o.Class, o.Msg, o.Line, o.Col, o.SrcLine = "syntax", e.Message, e.Line, e.Col, e.SrcLine
	case lang.RuntimeError:
		o.Class, o.Msg, o.Line, o.Col, o.SrcLine = "runtime", e.Message, e.Line, e.Col, e.SrcLine
	case lang.JsonError:
		o.Class, o.Msg, o.FileName = "json", e.Message, e.FileName
	default:
		o.Class, o.Msg = "other", fmt.Sprintf("%T: %v", err, err)
	}
}

// InProc runs lang.EvalProgram.
func InProc(prog string, files []InFile, selectors []string, opts Opts) Outcome {
	var out bytes.Buffer
	return InProcW(prog, files, selectors, opts, &out)
}

// InProcW is InProc writing stdout into the caller's buffer (so that a reader
// owned by the caller can observe what has been written so far).
func InProcW(prog string, files []InFile, selectors []string, opts Opts, outp *bytes.Buffer) (o Outcome) {
	out := outp
	inputs := make([]lang.InputFile, len(files))
	for i, f := range files {
		r := f.Reader
		if r == nil {
			r = bytes.NewReader(f.Data)
		}
		inputs[i] = lang.InputFile{Name: f.Name, Reader: r}
	}
	if opts.Budget > 0 {
		setBudget(opts.Budget)
	} else {
		setBudget(-1)
	}
	defer func() {
		setBudget(-1)
		o.Stdout = out.Bytes()
		if r := recover(); r != nil {
			if isBudgetPanic(r) {
				o.Class = "budget"
				return
			}
			o.Class = "panic"
			o.Panic = fmt.Sprint(r)
			o.Stack = string(debug.Stack())
		}
	}()
	ev, err := lang.EvalProgram(prog, inputs, selectors, out, opts.Fuzzing)
	classify(err, &o)
	o.HasEval = ev != nil
	if opts.WantRoot && err == nil && ev != nil {
		func() {
			defer func() {
				if r := recover(); r != nil {
					if isBudgetPanic(r) {
						o.RootErr = "budget"
						return
					}
					o.RootPanic = fmt.Sprint(r)
				}
			}()
			j, jerr := ev.GetRootJson()
			if jerr != nil {
				o.RootErr = jerr.Error()
			} else {
				o.RootJSON = j
			}
		}()
	}
	return o
}

// Expr runs lang.EvalExpression on a decoded JSON root (as -r does).
func Expr(src string, root interface{}) (o Outcome, cell *lang.Cell) {
	var out bytes.Buffer
	defer func() {
		o.Stdout = out.Bytes()
		if r := recover(); r != nil {
			o.Class = "panic"
			o.Panic = fmt.Sprint(r)
			o.Stack = string(debug.Stack())
		}
	}()
	c, err := lang.EvalExpression(src, root, &out)
	classify(err, &o)
	return o, c
}
