//go:build !verif

package run

const HookAvailable = false

func setBudget(n int64) {}

func isBudgetPanic(r interface{}) bool { return false }
