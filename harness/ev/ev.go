// Package ev is the evidence accumulator, the replay-file reader/writer and the
// known-findings reader shared by all property checks.
package ev

import (
	"bufio"
	"crypto/sha256"
	"encoding/binary"
	"encoding/hex"
	"encoding/json"
	"fmt"
	"hash/fnv"
	"os"
	"path/filepath"
	"sort"
	"strconv"
	"strings"
	"sync"
	"testing"
	"time"

	"pgregory.net/rapid"
)

// Root is the verification directory.
func Root() string {
	if r := os.Getenv("VERIF_ROOT"); r != "" {
		return r
	}
	return "/verif"
}

func Tier() string {
	if t := os.Getenv("VERIF_TIER"); t == "thorough" {
		return "thorough"
	}
	return "quick"
}

func Thorough() bool { return Tier() == "thorough" }

func Seed() int64 {
	s, err := strconv.ParseInt(os.Getenv("VERIF_SEED"), 10, 64)
	if err != nil {
		return 1
	}
	return s
}

func Shard() (int, int) {
	i, _ := strconv.Atoi(os.Getenv("VERIF_SHARD"))
	n, _ := strconv.Atoi(os.Getenv("VERIF_NSHARDS"))
	if n <= 0 {
		n = 1
	}
	return i, n
}

// Scale picks a case count by tier.
func Scale(quick, thorough int) int {
	if Thorough() {
		return thorough
	}
	return quick
}

// Replay is the on-disk form of one concrete case.
type Replay struct {
	Property string          `json:"property"`
	Check    string          `json:"check"`
	Explain  string          `json:"explain"`
	Program  string          `json:"program,omitempty"` // informational: the rendered program text
	Case     json.RawMessage `json:"case"`
	Tier     string          `json:"tier,omitempty"`
	Seed     int64           `json:"seed,omitempty"`
}

// ShardEvidence is what one test process writes; the driver merges shards.
type ShardEvidence struct {
	Property    string         `json:"property_id"`
	Tier        string         `json:"tier"`
	Seed        int64          `json:"seed"`
	Level       string         `json:"level"`
	Rule        string         `json:"rule"`
	Evaluations int            `json:"evaluations"`
	Nontrivial  int            `json:"nontrivial_evaluations"`
	Distinct    int            `json:"distinct_nontrivial"`
	Labels      map[string]int `json:"labels"`
	Discards    map[string]int `json:"discards"`
	Excluded    map[string]int `json:"excluded_known"`
	Samples     []interface{}  `json:"samples"`
	Exhaustive  []string       `json:"exhaustive_scopes"`
	Assumptions []string       `json:"assumptions"`
	Violations  []string       `json:"violations"`
	Known       []string       `json:"known_findings_active"`
	Notes       []string       `json:"notes"`
	WallS       float64        `json:"wall_s"`
	HashFile    string         `json:"hash_file"`
	Complete    bool           `json:"complete"`
}

type Recorder struct {
	mu       sync.Mutex
	t        *testing.T
	prop     string
	start    time.Time
	se       ShardEvidence
	distinct map[uint64]struct{}
	replayFn map[string]func(json.RawMessage) error

	pending *Replay // last failing case seen inside a rapid property
	maxSamp int
	sampleN int
}

// Start begins recording for a property check.
func Start(t *testing.T, prop, level, rule string) *Recorder {
	r := &Recorder{t: t, prop: prop, start: time.Now(), distinct: map[uint64]struct{}{}, replayFn: map[string]func(json.RawMessage) error{}, maxSamp: 6}
	r.se = ShardEvidence{Property: prop, Tier: Tier(), Seed: Seed(), Level: level, Rule: rule,
		Labels: map[string]int{}, Discards: map[string]int{}, Excluded: map[string]int{}}
	return r
}

func Hash(parts ...string) uint64 {
	h := fnv.New64a()
	for _, p := range parts {
		h.Write([]byte(p))
		h.Write([]byte{0})
	}
	return h.Sum64()
}

// Case records one evaluation. key identifies the case for distinctness.
func (r *Recorder) Case(key string, nontrivial bool, labels ...string) {
	r.mu.Lock()
	defer r.mu.Unlock()
	r.se.Evaluations++
	if nontrivial {
		r.se.Nontrivial++
		r.distinct[Hash(key)] = struct{}{}
	}
	for _, l := range labels {
		if l != "" {
			r.se.Labels[l]++
		}
	}
}

func (r *Recorder) Label(l string) {
	r.mu.Lock()
	r.se.Labels[l]++
	r.mu.Unlock()
}

func (r *Recorder) Labels(m map[string]int) {
	r.mu.Lock()
	for k, v := range m {
		if v > 0 {
			r.se.Labels[k]++
		}
	}
	r.mu.Unlock()
}

func (r *Recorder) Discard(reason string) {
	r.mu.Lock()
	r.se.Discards[reason]++
	r.mu.Unlock()
}

func (r *Recorder) Excluded(id string) {
	r.mu.Lock()
	r.se.Excluded[id]++
	r.mu.Unlock()
}

func (r *Recorder) Exhaustive(scope string) {
	r.mu.Lock()
	r.se.Exhaustive = append(r.se.Exhaustive, scope)
	r.mu.Unlock()
}

func (r *Recorder) Assume(a string) {
	r.mu.Lock()
	r.se.Assumptions = append(r.se.Assumptions, a)
	r.mu.Unlock()
}

func (r *Recorder) Note(n string) {
	r.mu.Lock()
	r.se.Notes = append(r.se.Notes, n)
	r.mu.Unlock()
}

// Sample keeps a few of the cases actually run: the first ones and then an
// exponentially thinning selection, so that late cases are represented too.
func (r *Recorder) Sample(mk func() interface{}) {
	r.mu.Lock()
	defer r.mu.Unlock()
	r.sampleN++
	n := r.sampleN
	if len(r.se.Samples) < 3 || (n&(n-1)) == 0 && len(r.se.Samples) < r.maxSamp+12 {
		r.se.Samples = append(r.se.Samples, mk())
	}
}

// ViolationCount returns the number of violations reported so far.
func (r *Recorder) ViolationCount() int {
	r.mu.Lock()
	defer r.mu.Unlock()
	return len(r.se.Violations)
}

// Evaluations returns the number of cases recorded so far.
func (r *Recorder) Evaluations() int {
	r.mu.Lock()
	defer r.mu.Unlock()
	return r.se.Evaluations
}

// DiscardRate is discards / (discards + evaluations).
func (r *Recorder) DiscardRate() float64 {
	r.mu.Lock()
	defer r.mu.Unlock()
	d := 0
	for _, v := range r.se.Discards {
		d += v
	}
	if d+r.se.Evaluations == 0 {
		return 0
	}
	return float64(d) / float64(d+r.se.Evaluations)
}

// ---- violations and replay ---------------------------------------------------------------

func foundDir() string {
	if d := os.Getenv("VERIF_FOUND_DIR"); d != "" {
		return d
	}
	return filepath.Join(Root(), "found")
}

func (r *Recorder) mkReplay(check string, c interface{}, program, explain string) *Replay {
	raw, err := json.Marshal(c)
	if err != nil {
		raw, _ = json.Marshal(fmt.Sprintf("unserialisable case: %v", err))
	}
	return &Replay{Property: r.prop, Check: check, Explain: explain, Program: program, Case: raw, Tier: Tier(), Seed: Seed()}
}

func writeReplay(rp *Replay) string {
	sum := sha256.Sum256(rp.Case)
	name := fmt.Sprintf("%s-%s-%s.json", rp.Property, rp.Check, hex.EncodeToString(sum[:6]))
	dir := foundDir()
	os.MkdirAll(dir, 0o755)
	path := filepath.Join(dir, name)
	data, _ := json.MarshalIndent(rp, "", " ")
	os.WriteFile(path, append(data, '\n'), 0o644)
	return path
}

// Violation reports a violation found outside rapid (exhaustive loops, replays).
func (r *Recorder) Violation(check string, c interface{}, program, explain string) {
	rp := r.mkReplay(check, c, program, explain)
	path := writeReplay(rp)
	r.mu.Lock()
	r.se.Violations = append(r.se.Violations, path)
	r.mu.Unlock()
	fmt.Printf("VIOLATION property=%s replay=%s\n", r.prop, path)
	fmt.Printf("  check=%s: %s\n", check, firstLines(explain, 12))
	r.t.Errorf("violation of %s (%s): %s", r.prop, check, firstLines(explain, 12))
}

func firstLines(s string, n int) string {
	lines := strings.Split(s, "\n")
	if len(lines) > n {
		lines = append(lines[:n], "...")
	}
	return strings.Join(lines, "\n    ")
}

// Pending remembers a failing case seen inside a rapid property; the last one
// rapid runs is the shrunk one.
func (r *Recorder) Pending(check string, c interface{}, program, explain string) {
	rp := r.mkReplay(check, c, program, explain)
	r.mu.Lock()
	r.pending = rp
	r.mu.Unlock()
}

// Check runs a rapid property as a subtest. A failure is reported as a
// violation using the last Pending case (the shrunk one).
func (r *Recorder) Check(name string, prop func(*rapid.T)) bool {
	r.mu.Lock()
	r.pending = nil
	r.mu.Unlock()
	ok := r.t.Run(name, func(t *testing.T) {
		rapid.Check(t, prop)
	})
	if ok {
		return true
	}
	r.mu.Lock()
	rp := r.pending
	r.mu.Unlock()
	if rp == nil {
		// the property failed without going through Pending: a harness bug or a
		// generator health failure; never a verdict on the code
		fmt.Printf("HARNESS-ERROR property=%s check=%s: rapid failed without a recorded case\n", r.prop, name)
		r.mu.Lock()
		r.se.Notes = append(r.se.Notes, "harness error in "+name)
		r.se.Violations = append(r.se.Violations, "HARNESS-ERROR:"+name)
		r.mu.Unlock()
		return false
	}
	path := writeReplay(rp)
	r.mu.Lock()
	r.se.Violations = append(r.se.Violations, path)
	r.mu.Unlock()
	fmt.Printf("VIOLATION property=%s replay=%s\n", r.prop, path)
	fmt.Printf("  check=%s: %s\n", rp.Check, firstLines(rp.Explain, 12))
	return false
}

// Replayer registers the function that re-runs a stored case of the given check.
func (r *Recorder) Replayer(check string, f func(json.RawMessage) error) {
	r.replayFn[check] = f
}

func LoadReplay(path string) (*Replay, error) {
	data, err := os.ReadFile(path)
	if err != nil {
		return nil, err
	}
	var rp Replay
	if err := json.Unmarshal(data, &rp); err != nil {
		return nil, fmt.Errorf("%s: %v", path, err)
	}
	return &rp, nil
}

// RunReplay re-runs one replay file; a nil error means the stored case passes.
func (r *Recorder) RunReplay(path string) error {
	rp, err := LoadReplay(path)
	if err != nil {
		return err
	}
	f := r.replayFn[rp.Check]
	if f == nil {
		return fmt.Errorf("no replayer registered for check %q", rp.Check)
	}
	return f(rp.Case)
}

// ReplayOnly handles `./check CXX --replay F`: if VERIF_REPLAY_FILE is set, the
// file is re-run, the verdict printed, and true is returned (the caller returns).
func (r *Recorder) ReplayOnly() bool {
	path := os.Getenv("VERIF_REPLAY_FILE")
	if path == "" {
		return false
	}
	rp, err := LoadReplay(path)
	if err != nil {
		fmt.Printf("HARNESS-ERROR cannot load replay file: %v\n", err)
		r.t.Fatalf("cannot load %s: %v", path, err)
	}
	if rp.Property != r.prop {
		fmt.Printf("HARNESS-ERROR replay file is for %s, not %s\n", rp.Property, r.prop)
		r.t.Fatalf("wrong property")
	}
	if err := r.RunReplay(path); err != nil {
		fmt.Printf("VIOLATION property=%s replay=%s\n", r.prop, path)
		fmt.Printf("  %s\n", firstLines(err.Error(), 20))
		r.t.Errorf("replay fails: %v", err)
	} else {
		fmt.Printf("REPLAY-PASS property=%s replay=%s\n", r.prop, path)
	}
	return true
}

// ReplayTier re-runs every committed regression case of this property
// (replay/<prop>-*.json and replay/FX-<prop>-*.json). Open known findings
// (KF-*) are handled by Known.
func (r *Recorder) ReplayTier() {
	dir := filepath.Join(Root(), "replay")
	ents, _ := os.ReadDir(dir)
	n := 0
	for _, e := range ents {
		name := e.Name()
		if !strings.HasSuffix(name, ".json") {
			continue
		}
		if !(strings.HasPrefix(name, r.prop+"-") || strings.HasPrefix(name, "FX-"+r.prop+"-")) {
			continue
		}
		path := filepath.Join(dir, name)
		n++
		if err := r.RunReplay(path); err != nil {
			r.mu.Lock()
			r.se.Violations = append(r.se.Violations, path)
			r.mu.Unlock()
			fmt.Printf("VIOLATION property=%s replay=%s\n", r.prop, path)
			fmt.Printf("  regression case fails: %s\n", firstLines(err.Error(), 12))
			r.t.Errorf("regression %s fails: %v", name, err)
		}
	}
	r.mu.Lock()
	r.se.Labels["replay-tier-cases"] += n
	r.mu.Unlock()
}

// ---- known findings ------------------------------------------------------------------------

type Finding struct {
	Open     bool
	Property string
	ID       string
	Class    string
	Repro    string
	Text     string
}

func LoadFindings() []Finding {
	f, err := os.Open(filepath.Join(Root(), "known-findings.txt"))
	if err != nil {
		return nil
	}
	defer f.Close()
	var out []Finding
	sc := bufio.NewScanner(f)
	sc.Buffer(make([]byte, 1<<20), 1<<20)
	for sc.Scan() {
		line := strings.TrimSpace(sc.Text())
		if strings.HasPrefix(line, "finding:") {
			fd := Finding{Open: true}
			rest := strings.TrimSpace(strings.TrimPrefix(line, "finding:"))
			head := rest
			if k := strings.Index(rest, "::"); k >= 0 {
				head, fd.Text = strings.TrimSpace(rest[:k]), strings.TrimSpace(rest[k+2:])
			}
			for _, fld := range strings.Fields(head) {
				kv := strings.SplitN(fld, "=", 2)
				if len(kv) != 2 {
					continue
				}
				switch kv[0] {
				case "property":
					fd.Property = kv[1]
				case "id":
					fd.ID = kv[1]
				case "class":
					fd.Class = kv[1]
				case "repro":
					fd.Repro = kv[1]
				}
			}
			out = append(out, fd)
		}
	}
	return out
}

// KnownActive reports whether the open finding with the given id is still
// reproducible (its repro replay file still fails). When announce is true (the
// check of the property that owns the finding) the KNOWN-FINDING line is
// printed. A finding that no longer reproduces is simply inactive: its
// exclusion is switched off and the class is tested like any other.
func (r *Recorder) KnownActive(id string, announce bool) bool {
	for _, fd := range LoadFindings() {
		if fd.ID != id || !fd.Open {
			continue
		}
		path := filepath.Join(Root(), fd.Repro)
		err := r.RunReplay(path)
		if err == nil {
			r.Note("known finding " + id + " no longer reproduces; exclusion off")
			return false
		}
		if strings.HasPrefix(err.Error(), "no replayer") || os.IsNotExist(err) {
			fmt.Printf("HARNESS-ERROR known finding %s: %v\n", id, err)
			r.t.Errorf("known finding %s: %v", id, err)
			return false
		}
		if announce {
			fmt.Printf("KNOWN-FINDING: property=%s %s %s\n", fd.Property, fd.ID, fd.Text)
		}
		r.mu.Lock()
		r.se.Known = append(r.se.Known, id)
		r.mu.Unlock()
		return true
	}
	return false
}

// ---- finishing -----------------------------------------------------------------------------------

// Finish writes the shard evidence. complete=false marks a run that must not be
// taken as a pass (the driver turns it into exit 2).
func (r *Recorder) Finish() {
	r.mu.Lock()
	defer r.mu.Unlock()
	r.se.Distinct = len(r.distinct)
	r.se.WallS = time.Since(r.start).Seconds()
	r.se.Complete = !r.t.Failed() || len(r.se.Violations) > 0
	out := os.Getenv("VERIF_OUT")
	if out == "" {
		out = filepath.Join(Root(), ".work", "shards", r.prop+"-0")
	}
	os.MkdirAll(filepath.Dir(out), 0o755)
	// hashes for exact merging of distinct counts across shards
	hs := make([]uint64, 0, len(r.distinct))
	for h := range r.distinct {
		hs = append(hs, h)
	}
	sort.Slice(hs, func(a, b int) bool { return hs[a] < hs[b] })
	buf := make([]byte, 8*len(hs))
	for k, h := range hs {
		binary.LittleEndian.PutUint64(buf[8*k:], h)
	}
	r.se.HashFile = out + ".hashes"
	os.WriteFile(r.se.HashFile, buf, 0o644)
	data, _ := json.MarshalIndent(r.se, "", " ")
	os.WriteFile(out+".json", append(data, '\n'), 0o644)
}
