package gen

import (
	"strings"

	"verif/harness/ast"

	"pgregory.net/rapid"
)

// RandLayout lays a token sequence out with random legal spacing: between two
// tokens nothing (only where they cannot fuse), spaces, tabs, carriage returns,
// a newline, or a comment followed by a newline; newlines are never put directly
// after print / return, after a comma of a print list, or before ';'. Every
// statement separator is a newline or ';' (never ';' after '}'); every string
// literal gets either quote when its content allows both.
type RandLayout struct {
	T        *rapid.T
	Features map[string]bool
	// Tight raises the probability of "nothing" between tokens.
	Tight bool
}

func NewRandLayout(t *rapid.T) *RandLayout {
	return &RandLayout{T: t, Features: map[string]bool{}, Tight: rapid.Bool().Draw(t, "tight")}
}

func isWordByte(c byte) bool {
	return c == '_' || c == '$' || c >= '0' && c <= '9' || c >= 'a' && c <= 'z' || c >= 'A' && c <= 'Z' || c >= 0x80
}

// CanGlue reports whether tokens a and b may be written without anything
// between them without changing the token sequence.
func CanGlue(a, b ast.Tok) bool {
	if a.Kind == ast.TRaw || b.Kind == ast.TRaw {
		return false
	}
	if b.Kind == ast.TRegex {
		return false // keep a space before a regex literal
	}
	at, bt := a.Text, b.Text
	if a.Kind == ast.TStr {
		at = "\""
	}
	if b.Kind == ast.TStr {
		bt = "\""
	}
	if a.Kind == ast.TRegex {
		at = "/"
	}
	if at == "" || bt == "" {
		return false
	}
	la, fb := at[len(at)-1], bt[0]
	if isWordByte(la) && isWordByte(fb) {
		// (a '$' starts a new token wherever it stands: print$.a is print $ . a and
		// k in$ is k in $; only a bare '$' continues into a following word)
		if !(fb == '$' && la != '$') {
			return false
		}
	}
	// (a number may be directly followed by the member operator: a numeric literal
	// never absorbs an adjacent operator, 2.5.floor() is (2.5).floor())
	// a number followed by a word character is handled above; a word followed by a
	// number likewise. Operator pairs that would fuse into another token:
	pair := string([]byte{la, fb})
	switch pair {
	case "++", "--", "==", "!=", "!~", "<=", ">=", "=>", "&&", "||", "+=", "-=", "*=", "/=", "//":
		return false
	}
	if la == '/' && a.Kind == ast.TPunct {
		// a division sign followed by anything that could start a regex body is
		// fine lexically (regexes are only read in prefix position)
	}
	return true
}

func (l *RandLayout) horizontal() string {
	switch rapid.IntRange(0, 5).Draw(l.T, "hws") {
	case 0:
		return "  "
	case 1:
		l.Features["tab"] = true
		return "\t"
	case 2:
		l.Features["carriage-return"] = true
		return " \r"
	case 3:
		return "   \t "
	}
	return " "
}

var commentTexts = []string{"# comment", "#", "# print \"x\" ; exit }", "#{ ' \" /", "# é 日本 \\", "#\t# nested # marks"}

func (l *RandLayout) Gap(toks []ast.Tok, i int) string {
	a, b := toks[i-1], toks[i]
	nlOK := !a.NoNLAfter
	// a newline before ';' cannot happen here: ';' only appears as a TSep or inside
	// for (...) headers, where it is an ordinary token and newlines are harmless
	k := rapid.IntRange(0, 19).Draw(l.T, "gap")
	if l.Tight && k >= 6 {
		k = k % 6
	}
	switch {
	case k <= 3:
		if CanGlue(a, b) {
			l.Features["glued"] = true
			if a.Kind == ast.TNum || b.Kind == ast.TNum {
				if a.Kind == ast.TPunct || b.Kind == ast.TPunct {
					l.Features["operator-glued-to-number"] = true
				}
			}
			return ""
		}
		return " "
	case k <= 5:
		return " "
	case k <= 9:
		return l.horizontal()
	case k <= 13:
		if nlOK {
			l.Features["newline-inside-statement"] = true
			return l.maybeIndent("\n")
		}
		return " "
	case k <= 15:
		if nlOK {
			l.Features["comment"] = true
			c := rapid.SampledFrom(commentTexts).Draw(l.T, "comment")
			return " " + c + "\n" + l.indent()
		}
		return " "
	}
	return " "
}

func (l *RandLayout) indent() string {
	return strings.Repeat(" ", rapid.IntRange(0, 3).Draw(l.T, "indent"))
}

func (l *RandLayout) maybeIndent(s string) string { return s + l.indent() }

func (l *RandLayout) Sep(toks []ast.Tok, i int) string {
	tk := toks[i]
	semiOK := !tk.NoSemi && !tk.HardNL
	// the separator directly before '}' or at the very end may also be dropped...
	// (not used: every statement keeps its separator; '}' closes after a newline or ';')
	k := rapid.IntRange(0, 9).Draw(l.T, "sep")
	switch {
	case k <= 2 && semiOK:
		l.Features["semicolon"] = true
		pre := ""
		if rapid.Bool().Draw(l.T, "spacebeforesemi") {
			pre = " "
		}
		post := " "
		switch rapid.IntRange(0, 2).Draw(l.T, "aftersemi") {
		case 0:
			post = ""
			// `;` glued to the next token is fine: ';' fuses with nothing
		case 1:
			post = "\n"
		}
		return pre + ";" + post
	case k == 3:
		l.Features["comment"] = true
		return " " + rapid.SampledFrom(commentTexts).Draw(l.T, "sepcomment") + "\n"
	case k == 4:
		l.Features["blank-line"] = true
		return "\n\n" + l.indent()
	case k == 5:
		l.Features["crlf"] = true
		return "\r\n"
	}
	return "\n" + l.indent()
}

func (l *RandLayout) Quote(toks []ast.Tok, i int) byte {
	raw := toks[i].Text
	hasD, hasS := strings.IndexByte(raw, '"') >= 0, strings.IndexByte(raw, '\'') >= 0
	switch {
	case hasD:
		return '\''
	case hasS:
		return '"'
	}
	if rapid.Bool().Draw(l.T, "quote") {
		l.Features["single-quotes"] = true
		return '\''
	}
	return '"'
}

// Tight is the deterministic layout with nothing between two tokens wherever they
// cannot fuse into another token, and a single space elsewhere.
type Tight struct{}

func (Tight) Gap(toks []ast.Tok, i int) string {
	if CanGlue(toks[i-1], toks[i]) {
		return ""
	}
	return " "
}
func (Tight) Sep([]ast.Tok, int) string { return "\n" }
func (Tight) Quote(toks []ast.Tok, i int) byte {
	return ast.DefaultQuote(toks[i].Text)
}
