// Package gen holds the rapid generators: values, JSON documents, expressions,
// statements, programs and layouts. Every random choice is a rapid draw, so
// failures shrink and replay.
package gen

import (
	"math"
	"strconv"
	"strings"

	"verif/harness/ast"

	"pgregory.net/rapid"
)

// Float64 draws a finite double from strata chosen after the anchors: zeros,
// small integers, halves, fractions, the 2^53 neighbourhood, huge, tiny,
// subnormal, and arbitrary finite bit patterns.
func Float64() *rapid.Generator[float64] {
	return rapid.Custom(func(t *rapid.T) float64 {
		var x float64
		switch rapid.IntRange(0, 11).Draw(t, "fstratum") {
		case 0:
			x = 0
		case 1:
			x = float64(rapid.IntRange(0, 20).Draw(t, "small"))
		case 2:
			x = float64(rapid.IntRange(0, 100000).Draw(t, "int"))
		case 3:
			x = float64(rapid.IntRange(0, 40).Draw(t, "half2")) / 2
		case 4:
			x = float64(rapid.IntRange(0, 100000).Draw(t, "frac")) / float64(rapid.SampledFrom([]int{3, 7, 10, 100, 1000, 4096}).Draw(t, "den"))
		case 5:
			x = 9007199254740992 + float64(rapid.IntRange(-4, 4).Draw(t, "d53"))
		case 6:
			x = rapid.SampledFrom([]float64{1e15, 1e16, 1e21, 1e22, 123456789012345678, 1.7976931348623157e308, 4.5e15 + 0.5}).Draw(t, "huge")
		case 7:
			x = rapid.SampledFrom([]float64{1e-5, 1e-6, 1e-7, 1.5e-10, 5e-324, 2.2250738585072014e-308, 0.1, 0.2, 0.30000000000000004, 0.49999999999999994}).Draw(t, "tiny")
		case 8:
			x = math.Float64frombits(rapid.Uint64().Draw(t, "bits"))
			if math.IsNaN(x) || math.IsInf(x, 0) {
				x = 1
			}
		case 9:
			x = float64(rapid.IntRange(0, 1<<20).Draw(t, "i20")) + 0.5
		case 10:
			x = math.Ldexp(1, rapid.IntRange(-60, 70).Draw(t, "exp"))
		default:
			x = float64(rapid.Int64Range(0, 1<<53).Draw(t, "i53"))
		}
		x = math.Abs(x)
		if rapid.IntRange(0, 3).Draw(t, "neg") == 0 {
			x = -x
		}
		return x
	})
}

// NumSpelling spells a non-negative finite double as a jqawk literal.
func NumSpelling(x float64) string {
	return strconv.FormatFloat(math.Abs(x), 'f', -1, 64)
}

// NumNode is the expression for a double: a literal, or unary minus on one.
// Negative zero is written 0 * -1 (there is no -0 literal; -0 as unary minus on
// 0 also works and is used half of the time).
func NumNode(x float64) *ast.Node {
	if x < 0 || (x == 0 && math.Signbit(x)) {
		return ast.Un("-", ast.Num(NumSpelling(x)))
	}
	return ast.Num(NumSpelling(x))
}

func NumExpr() *rapid.Generator[*ast.Node] {
	return rapid.Custom(func(t *rapid.T) *ast.Node {
		return NumNode(Float64().Draw(t, "x"))
	})
}

// safe raw characters for a string literal: everything printable except both
// quotes and the backslash (escapes are generated separately where wanted)
var wordish = []string{"", "a", "B", "abc", "a b", " ", "  ", "é", "日本", "x y z", "zz", "A", "b", "~", "(", "^a", "a.b", "%s", "#", "{", "}", "[1]", "null", "true"}
var numericish = []string{"0", "1", "7", "10", "9", "-1", "-2.5", "+3", "1e2", "1E2", ".5", "5.", "007", "1e-2", "0.0", "-0", "12345678901234567890", "3.14", "1e21"}

// StrRaw draws the raw text of a string literal (valid UTF-8, no quotes, no
// backslashes): words, numeric-looking strings (never exotic), whitespace,
// multi-byte text.
func StrRaw() *rapid.Generator[string] {
	return rapid.Custom(func(t *rapid.T) string {
		switch rapid.IntRange(0, 4).Draw(t, "sstratum") {
		case 0:
			return rapid.SampledFrom(wordish).Draw(t, "word")
		case 1:
			return rapid.SampledFrom(numericish).Draw(t, "numstr")
		case 2:
			return NumSpellingSigned(Float64().Draw(t, "numval"))
		case 3:
			return rapid.StringOfN(rapid.RuneFrom([]rune("abcAB019 .-+e_,:éß日")), 0, 8, -1).Draw(t, "rs")
		default:
			return rapid.StringOfN(rapid.RuneFrom([]rune("ab")), 0, 3, -1).Draw(t, "ab")
		}
	})
}

func NumSpellingSigned(x float64) string {
	s := strconv.FormatFloat(x, 'f', -1, 64)
	return s
}

// ScalarExpr draws an expression denoting a scalar: number, string, bool, null.
func ScalarExpr() *rapid.Generator[*ast.Node] {
	return rapid.Custom(func(t *rapid.T) *ast.Node {
		switch rapid.IntRange(0, 9).Draw(t, "kind") {
		case 0, 1, 2, 3:
			return NumExpr().Draw(t, "num")
		case 4, 5, 6, 7:
			return ast.Str(StrRaw().Draw(t, "str"))
		case 8:
			if rapid.Bool().Draw(t, "b") {
				return ast.True()
			}
			return ast.False()
		default:
			return ast.Null()
		}
	})
}

// KindOf names the value kind a literal-ish expression denotes.
func KindOf(n *ast.Node) string {
	switch n.K {
	case "num":
		return "num"
	case "str":
		return "str"
	case "true", "false":
		return "bool"
	case "null":
		return "null"
	case "regex":
		return "regex"
	case "arr":
		return "arr"
	case "obj":
		return "obj"
	case "paren":
		return KindOf(n.C[0])
	case "un":
		if n.S == "!" {
			return "bool"
		}
		return "num"
	case "bin":
		switch string(n.S) {
		case "*", "-", "/", "%":
			return "num"
		}
	}
	return "expr"
}

// JSONString spells a string as a JSON string literal (minimal escaping).
func JSONString(s string) string {
	var sb strings.Builder
	sb.WriteByte('"')
	for _, r := range s {
		switch {
		case r == '"' || r == '\\':
			sb.WriteByte('\\')
			sb.WriteRune(r)
		case r == '\n':
			sb.WriteString("\\n")
		case r == '\t':
			sb.WriteString("\\t")
		case r == '\r':
			sb.WriteString("\\r")
		case r < 0x20:
			sb.WriteString("\\u00")
			sb.WriteString(strconv.FormatInt(int64(r)+0x100, 16)[1:])
		default:
			sb.WriteRune(r)
		}
	}
	sb.WriteByte('"')
	return sb.String()
}
