package gen

import (
	"fmt"
	"math"
	"strconv"
	"strings"

	"verif/harness/jsonx"

	"pgregory.net/rapid"
)

// DocOpts steers the JSON document generator.
type DocOpts struct {
	Depth      int
	MaxItems   int
	Keys       []string // object keys to draw from ("" = default alphabet)
	SafeStr    bool     // strings without quotes, backslashes, control characters (print-safe)
	SmallNums  bool     // small integers and halves only
	ForceEmpty bool     // weight empty containers up at every depth
	AnyKeys    bool     // arbitrary (also non-identifier) keys
}

var defaultKeys = []string{"a", "b", "c", "k", "n", "name", "items", "x", "y", "id", "length", "list"}
var safeStrings = []string{"", "x", "y", "abc", "a b", "10", "9", "é", "日本", "B", "0", " ", "x,y", "1e2", "100%", "%s %d%v"}

func JSONScalar(o DocOpts) *rapid.Generator[*jsonx.Val] {
	return rapid.Custom(func(t *rapid.T) *jsonx.Val {
		switch rapid.IntRange(0, 9).Draw(t, "skind") {
		case 0:
			return jsonx.VNull()
		case 1:
			return jsonx.VBool(rapid.Bool().Draw(t, "b"))
		case 2, 3, 4, 5:
			if o.SmallNums {
				n := float64(rapid.IntRange(-6, 40).Draw(t, "n")) / 2
				return jsonx.VNum(n)
			}
			x := Float64().Draw(t, "x")
			return jsonx.VNum(x)
		default:
			if o.SafeStr {
				return jsonx.VStr(rapid.SampledFrom(safeStrings).Draw(t, "s"))
			}
			return jsonx.VStr(JSONStringContent().Draw(t, "s"))
		}
	})
}

// JSONStringContent draws arbitrary valid-UTF-8 string contents, including
// quotes, backslashes, control characters, non-BMP characters.
func JSONStringContent() *rapid.Generator[string] {
	return rapid.Custom(func(t *rapid.T) string {
		switch rapid.IntRange(0, 3).Draw(t, "jsstratum") {
		case 0:
			return rapid.SampledFrom(safeStrings).Draw(t, "safe")
		case 1:
			return rapid.StringOfN(rapid.RuneFrom([]rune("ab\"\\/\n\t\r\b\f\u0001\u001f <>& é日😀{}[],:")), 0, 10, -1).Draw(t, "tricky")
		case 2:
			if rapid.Bool().Draw(t, "atoms") {
				// literal text that looks like an escape sequence or markup: anything that
				// post-processes JSON text instead of values trips over these
				n := rapid.IntRange(1, 4).Draw(t, "natoms")
				var sb strings.Builder
				for k := 0; k < n; k++ {
					sb.WriteString(rapid.SampledFrom([]string{"\\u003c", "\\u003e", "\\u0026", "\\u0022", "\\n", "\\\"", "\\\\", "\\", "&lt;", "<", ">", "&", "\u2028", "\u2029", "\"", "a", "/", "\\/", "%s", "${x}", "\x7f", "\ufeff"}).Draw(t, "atom"))
				}
				return sb.String()
			}
			return rapid.StringN(0, 12, -1).Draw(t, "any")
		default:
			return rapid.StringOfN(rapid.RuneFrom([]rune("abcxyz019 _-")), 0, 8, -1).Draw(t, "plain")
		}
	})
}

// JSONDoc draws a JSON value tree.
func JSONDoc(o DocOpts) *rapid.Generator[*jsonx.Val] {
	return rapid.Custom(func(t *rapid.T) *jsonx.Val {
		return genDoc(t, o, o.Depth)
	})
}

func genDoc(t *rapid.T, o DocOpts, depth int) *jsonx.Val {
	if depth <= 0 {
		return JSONScalar(o).Draw(t, "scalar")
	}
	maxItems := o.MaxItems
	if maxItems == 0 {
		maxItems = 4
	}
	kind := rapid.IntRange(0, 9).Draw(t, "dkind")
	if o.ForceEmpty && rapid.IntRange(0, 2).Draw(t, "forceempty") == 0 {
		if rapid.Bool().Draw(t, "emptyarr") {
			return jsonx.VArr()
		}
		return jsonx.VObj()
	}
	switch {
	case kind <= 3:
		n := rapid.IntRange(0, maxItems).Draw(t, "alen")
		v := jsonx.VArr()
		for k := 0; k < n; k++ {
			v.Items = append(v.Items, genDoc(t, o, depth-1))
		}
		return v
	case kind <= 6:
		n := rapid.IntRange(0, maxItems).Draw(t, "olen")
		v := jsonx.VObj()
		keys := o.Keys
		if len(keys) == 0 {
			keys = defaultKeys
		}
		seen := map[string]bool{}
		for k := 0; k < n; k++ {
			var key string
			if o.AnyKeys && rapid.IntRange(0, 2).Draw(t, "anykey") == 0 {
				key = JSONStringContent().Draw(t, "key")
			} else {
				key = rapid.SampledFrom(keys).Draw(t, "key")
			}
			if seen[key] {
				continue
			}
			seen[key] = true
			v.Members = append(v.Members, jsonx.Member{Key: key, Val: genDoc(t, o, depth-1)})
		}
		return v
	}
	return JSONScalar(o).Draw(t, "scalar")
}

// NumText spells a double as a JSON number that decodes to exactly that double.
func NumText(x float64) string {
	if x == 0 && math.Signbit(x) {
		return "-0"
	}
	return strconv.FormatFloat(x, 'g', -1, 64)
}

// Compact renders a value as compact JSON text (members in order, duplicates kept).
func Compact(v *jsonx.Val) string {
	var sb strings.Builder
	writeJSON(&sb, v, nil)
	return sb.String()
}

// Spelling carries the random choices of a fancy rendering.
type Spelling struct {
	t *rapid.T
}

// Fancy renders a value with random legal whitespace, escape spellings and
// number spellings.
func Fancy(t *rapid.T, v *jsonx.Val) string {
	var sb strings.Builder
	writeJSON(&sb, v, &Spelling{t})
	return sb.String()
}

func (s *Spelling) ws(sb *strings.Builder) {
	if s == nil {
		return
	}
	switch rapid.IntRange(0, 7).Draw(s.t, "ws") {
	case 0:
		sb.WriteByte(' ')
	case 1:
		sb.WriteByte('\n')
	case 2:
		sb.WriteString("\r\n\t")
	case 3:
		sb.WriteString("  ")
	}
}

func writeJSON(sb *strings.Builder, v *jsonx.Val, sp *Spelling) {
	switch v.K {
	case jsonx.Null:
		sb.WriteString("null")
	case jsonx.Bool:
		if v.B {
			sb.WriteString("true")
		} else {
			sb.WriteString("false")
		}
	case jsonx.Num:
		sb.WriteString(numSpelling(v.N, sp))
	case jsonx.Str:
		writeJSONString(sb, v.S, sp)
	case jsonx.Arr:
		sb.WriteByte('[')
		sp.ws(sb)
		for i, it := range v.Items {
			if i > 0 {
				sb.WriteByte(',')
				sp.ws(sb)
			}
			writeJSON(sb, it, sp)
			sp.ws(sb)
		}
		sb.WriteByte(']')
	case jsonx.Obj:
		sb.WriteByte('{')
		sp.ws(sb)
		for i, m := range v.Members {
			if i > 0 {
				sb.WriteByte(',')
				sp.ws(sb)
			}
			writeJSONString(sb, m.Key, sp)
			sp.ws(sb)
			sb.WriteByte(':')
			sp.ws(sb)
			writeJSON(sb, m.Val, sp)
			sp.ws(sb)
		}
		sb.WriteByte('}')
	}
}

func numSpelling(x float64, sp *Spelling) string {
	base := NumText(x)
	if sp == nil {
		return base
	}
	switch rapid.IntRange(0, 5).Draw(sp.t, "numsp") {
	case 0:
		// exponent form
		return strconv.FormatFloat(x, 'e', -1, 64)
	case 1:
		// positional when reasonably short
		if math.Abs(x) < 1e25 && (math.Abs(x) > 1e-12 || x == 0) {
			return strconv.FormatFloat(x, 'f', -1, 64)
		}
	case 2:
		// trailing zeros after a fraction / upper-case E
		if !strings.ContainsAny(base, "eE") {
			if strings.Contains(base, ".") {
				return base + "00"
			}
			return base + ".0"
		}
		return strings.Replace(base, "e", "E", 1)
	case 3:
		if !strings.ContainsAny(base, "eE.") && len(base) < 15 {
			return base + "e0"
		}
	}
	return base
}

func writeJSONString(sb *strings.Builder, s string, sp *Spelling) {
	sb.WriteByte('"')
	for _, r := range s {
		style := 0
		if sp != nil {
			style = rapid.IntRange(0, 5).Draw(sp.t, "esc")
		}
		switch {
		case r == '"' || r == '\\':
			if style == 1 {
				fmt.Fprintf(sb, "\\u%04x", r)
			} else {
				sb.WriteByte('\\')
				sb.WriteRune(r)
			}
		case r == '/':
			if style == 1 {
				sb.WriteString("\\/")
			} else {
				sb.WriteRune(r)
			}
		case r == '\n':
			sb.WriteString("\\n")
		case r == '\t':
			sb.WriteString("\\t")
		case r == '\r':
			sb.WriteString("\\r")
		case r == '\b':
			sb.WriteString("\\b")
		case r == '\f':
			sb.WriteString("\\f")
		case r < 0x20:
			fmt.Fprintf(sb, "\\u%04x", r)
		case r > 0xFFFF:
			if style == 1 {
				r1, r2 := utf16Pair(r)
				fmt.Fprintf(sb, "\\u%04x\\u%04X", r1, r2)
			} else {
				sb.WriteRune(r)
			}
		case style == 1 && r != 0xFFFD:
			fmt.Fprintf(sb, "\\u%04X", r)
		default:
			sb.WriteRune(r)
		}
	}
	sb.WriteByte('"')
}

func utf16Pair(r rune) (rune, rune) {
	r -= 0x10000
	return 0xd800 + (r>>10)&0x3ff, 0xdc00 + r&0x3ff
}
