package gen

import (
	"strconv"

	"verif/harness/ast"
	"verif/harness/jsonx"

	"pgregory.net/rapid"
)

// Env describes the names an expression may mention. The generator is
// "typed-ish": it aims operands of the right kind at operators most of the time
// (so that deep trees evaluate instead of failing at the first node) and
// deliberately misses some of the time (so that coercions and runtime errors
// stay covered).
type Env struct {
	Nums  []string // variables holding numbers
	Strs  []string // variables holding strings
	Bools []string
	Arrs  []string // variables holding arrays of scalars
	Objs  []string // variables holding objects
	Unset []string // names never assigned
	Funs  []Fun    // pure user functions
	// Dollar: kind of $ ("" = do not use, "obj", "arr", "num", "str")
	Dollar     string
	DollarKeys []string // keys of $ when it is an object (numbers)
	NoRegex    bool
	NoUnset    bool
}

type Fun struct {
	Name  string
	Arity int
}

var binArith = []string{"+", "-", "*", "/", "%"}
var binCmp = []string{"==", "!=", "<", "<=", ">", ">="}
var binLogic = []string{"&&", "||"}
var binMatch = []string{"~", "!~"}
var AllBin = []string{"+", "-", "*", "/", "%", "==", "!=", "<", "<=", ">", ">=", "&&", "||", "~", "!~"}
var typeNames = []string{"string", "bool", "number", "array", "object", "regex", "unknown", "null", "function"}

func pick(t *rapid.T, label string, xs []string) string {
	return rapid.SampledFrom(xs).Draw(t, label)
}

// Expr draws a pure expression (no assignment, no ++/--, no mutating method) of
// roughly the wanted kind: "num", "str", "bool", "any".
func Expr(env *Env, depth int, want string) *rapid.Generator[*ast.Node] {
	return rapid.Custom(func(t *rapid.T) *ast.Node {
		return genExpr(t, env, depth, want)
	})
}

func genLeaf(t *rapid.T, env *Env, want string) *ast.Node {
	// occasionally ignore the wanted kind
	if rapid.IntRange(0, 9).Draw(t, "offkind") == 0 {
		want = pick(t, "kind", []string{"num", "str", "bool", "any", "null", "arr", "obj"})
	}
	useVar := rapid.IntRange(0, 2).Draw(t, "usevar") > 0
	switch want {
	case "num":
		if useVar && len(env.Nums) > 0 {
			return ast.Id(pick(t, "nv", env.Nums))
		}
		if env.Dollar == "obj" && len(env.DollarKeys) > 0 && rapid.Bool().Draw(t, "dk") {
			return ast.Mem(ast.Dollar(), pick(t, "dkey", env.DollarKeys))
		}
		return ast.Num(NumSpelling(float64(rapid.IntRange(0, 12).Draw(t, "n"))))
	case "str":
		if useVar && len(env.Strs) > 0 {
			return ast.Id(pick(t, "sv", env.Strs))
		}
		return ast.Str(pick(t, "s", []string{"a", "b", "ab", "", "10", "9", "x,y", "B"}))
	case "bool":
		if useVar && len(env.Bools) > 0 {
			return ast.Id(pick(t, "bv", env.Bools))
		}
		if rapid.Bool().Draw(t, "b") {
			return ast.True()
		}
		return ast.False()
	case "null":
		return ast.Null()
	case "arr":
		if len(env.Arrs) > 0 {
			return ast.Id(pick(t, "av", env.Arrs))
		}
		return ast.Arr(ast.Num("1"), ast.Num("2"))
	case "obj":
		if len(env.Objs) > 0 {
			return ast.Id(pick(t, "ov", env.Objs))
		}
		return ast.Paren(ast.Obj(ast.KV("k", ast.Num("1"))))
	}
	// any
	switch rapid.IntRange(0, 7).Draw(t, "anyleaf") {
	case 0, 1:
		return genLeaf(t, env, "num")
	case 2, 3:
		return genLeaf(t, env, "str")
	case 4:
		return genLeaf(t, env, "bool")
	case 5:
		return ast.Null()
	case 6:
		if !env.NoUnset && len(env.Unset) > 0 {
			return ast.Id(pick(t, "uv", env.Unset))
		}
		return genLeaf(t, env, "num")
	default:
		if !env.NoRegex {
			return ast.Regex(pick(t, "re", []string{"a", "^b", "b$", "[0-9]", "x|y"}))
		}
		return genLeaf(t, env, "str")
	}
}

func genExpr(t *rapid.T, env *Env, depth int, want string) *ast.Node {
	if depth <= 0 || rapid.IntRange(0, 4).Draw(t, "leaf") == 0 {
		return genLeaf(t, env, want)
	}
	d := depth - 1
	switch want {
	case "num":
		switch rapid.IntRange(0, 9).Draw(t, "numform") {
		case 0, 1, 2, 3, 4:
			op := pick(t, "aop", binArith)
			l, r := genExpr(t, env, d, "num"), genExpr(t, env, d, "num")
			return ast.Bin(op, l, r)
		case 5:
			return ast.Un(pick(t, "uop", []string{"-", "+"}), genExpr(t, env, d, "any"))
		case 6:
			if len(env.Arrs) > 0 {
				a := ast.Id(pick(t, "av", env.Arrs))
				if rapid.Bool().Draw(t, "len") {
					return ast.Method(a, "length")
				}
				return ast.Idx(a, genExpr(t, env, 0, "num"))
			}
		case 7:
			if len(env.Objs) > 0 {
				return ast.Mem(ast.Id(pick(t, "ov", env.Objs)), pick(t, "key", []string{"k", "n", "missing"}))
			}
		case 8:
			if len(env.Funs) > 0 {
				f := rapid.SampledFrom(env.Funs).Draw(t, "fun")
				args := make([]*ast.Node, f.Arity)
				for k := range args {
					args[k] = genExpr(t, env, d, "num")
				}
				return ast.Call(ast.Id(f.Name), args...)
			}
		case 9:
			inner := genExpr(t, env, d, "num")
			return ast.Method(inner, pick(t, "nm", []string{"floor", "ceil", "round"}))
		}
		return ast.Bin(pick(t, "aop2", binArith), genExpr(t, env, d, "num"), genExpr(t, env, d, "num"))
	case "str":
		switch rapid.IntRange(0, 5).Draw(t, "strform") {
		case 0, 1, 2:
			l, r := genExpr(t, env, d, "str"), genExpr(t, env, d, "any")
			if rapid.Bool().Draw(t, "swap") {
				l, r = r, l
			}
			return ast.Bin("+", l, r)
		case 3:
			return ast.Method(genExpr(t, env, d, "str"), pick(t, "sm", []string{"upper", "lower"}))
		case 4:
			return ast.Idx(ast.Method(genExpr(t, env, d, "str"), "split", ast.Str(pick(t, "sep", []string{",", "a", ""}))), ast.Num("0"))
		}
		return genLeaf(t, env, "str")
	case "bool":
		switch rapid.IntRange(0, 9).Draw(t, "boolform") {
		case 0, 1, 2:
			k := pick(t, "cmpkind", []string{"num", "num", "str", "any"})
			return ast.Bin(pick(t, "cop", binCmp), genExpr(t, env, d, k), genExpr(t, env, d, k))
		case 3, 4:
			return ast.Bin(pick(t, "lop", binLogic), genExpr(t, env, d, "bool"), genExpr(t, env, d, "bool"))
		case 5:
			return ast.Un("!", genExpr(t, env, d, "any"))
		case 6:
			return ast.Is(genExpr(t, env, d, "any"), pick(t, "ty", typeNames))
		case 7:
			pat := ast.Str(pick(t, "pat", []string{"a", "^b", "1", "(", "b$"}))
			if !env.NoRegex && rapid.Bool().Draw(t, "relit") {
				pat = ast.Regex(pick(t, "re2", []string{"a", "^b", "[0-9]+", "x|y"}))
			}
			return ast.Bin(pick(t, "mop", binMatch), genExpr(t, env, d, "str"), pat)
		case 8:
			if len(env.Arrs) > 0 {
				return ast.Method(ast.Id(pick(t, "av", env.Arrs)), "contains", genExpr(t, env, d, "num"))
			}
		}
		return ast.Bin(pick(t, "cop2", binCmp), genExpr(t, env, d, "num"), genExpr(t, env, d, "num"))
	}
	// any
	k := pick(t, "anykind", []string{"num", "num", "str", "bool", "bool", "mixed"})
	if k == "mixed" {
		return ast.Bin(pick(t, "anyop", AllBin), genExpr(t, env, d, "any"), genExpr(t, env, d, "any"))
	}
	return genExpr(t, env, depth, k)
}

// Redundant returns the same tree with extra, semantically transparent
// parentheses around randomly chosen sub-expressions.
func Redundant(e *ast.Node) *rapid.Generator[*ast.Node] {
	return rapid.Custom(func(t *rapid.T) *ast.Node {
		return redundant(t, e)
	})
}

func isExprKind(k string) bool {
	switch k {
	case "num", "str", "true", "false", "null", "regex", "id", "dollar", "arr", "obj", "un", "pre", "post", "bin", "is", "asg", "mem", "idx", "call", "match", "paren":
		return true
	}
	return false
}

func redundant(t *rapid.T, n *ast.Node) *ast.Node {
	if n == nil {
		return nil
	}
	c := *n
	if n.C != nil {
		c.C = make([]*ast.Node, len(n.C))
		for k, ch := range n.C {
			switch {
			case ch == nil:
			case n.K == "case" && k < n.N:
				c.C[k] = ch.Clone() // patterns stay as they are
			case (n.K == "asg" || n.K == "pre" || n.K == "post") && k == 0:
				c.C[k] = ch.Clone() // assignment targets stay as they are
			default:
				c.C[k] = redundant(t, ch)
			}
		}
	}
	if isExprKind(n.K) && rapid.IntRange(0, 4).Draw(t, "wrap") == 0 {
		return ast.Paren(&c)
	}
	return &c
}

// ReadPath draws a read-only expression over $ that follows the document's
// real structure for a while and then (often) steps off it: missing members,
// indices past the end, members of scalars, pure method calls.
func ReadPath(doc *jsonx.Val) *rapid.Generator[*ast.Node] {
	return rapid.Custom(func(t *rapid.T) *ast.Node {
		e := ast.Dollar()
		cur := doc
		if cur != nil && cur.K == jsonx.Arr && len(cur.Items) > 0 {
			// with an array root, $ is an element
			cur = cur.Items[0]
		}
		depth := rapid.IntRange(1, 4).Draw(t, "pdepth")
		for d := 0; d < depth; d++ {
			switch {
			case cur != nil && cur.K == jsonx.Arr:
				n := len(cur.Items)
				idx := rapid.IntRange(-n-1, n+3).Draw(t, "pidx")
				if idx < 0 {
					e = ast.Idx(e, ast.Un("-", ast.Num(strconv.Itoa(-idx))))
				} else {
					e = ast.Idx(e, ast.Num(strconv.Itoa(idx)))
				}
				k := idx
				if k < 0 {
					k += n
				}
				if k >= 0 && k < n {
					cur = cur.Items[k]
				} else {
					cur = nil
				}
			case cur != nil && cur.K == jsonx.Obj:
				keys := cur.Keys()
				var key string
				if len(keys) > 0 && rapid.IntRange(0, 2).Draw(t, "pexist") > 0 {
					key = rapid.SampledFrom(keys).Draw(t, "pkey")
				} else {
					key = rapid.SampledFrom([]string{"a", "b", "zz", "items", "n"}).Draw(t, "pnewkey")
				}
				if ast.Keywords[key] || !identLike(key) {
					e = ast.Idx(e, ast.Str(key))
				} else {
					e = ast.Mem(e, key)
				}
				cur = cur.Get(key)
			default:
				if rapid.Bool().Draw(t, "pnum") {
					e = ast.Idx(e, ast.Num(strconv.Itoa(rapid.IntRange(0, 6).Draw(t, "pi"))))
				} else {
					e = ast.Mem(e, rapid.SampledFrom([]string{"a", "x", "zz"}).Draw(t, "pk"))
				}
				cur = nil
			}
		}
		// optionally finish with a pure method: mostly one the value has, now and
		// then one it lacks (calling null is a runtime error)
		m := rapid.IntRange(0, 11).Draw(t, "pmeth")
		kind := jsonx.Null
		if cur != nil {
			kind = cur.K
		}
		switch {
		case m == 0 && (kind == jsonx.Arr || kind == jsonx.Obj || kind == jsonx.Str):
			return ast.Method(e, "length")
		case m == 1 && kind == jsonx.Arr:
			return ast.Method(e, "contains", ast.Num("1"))
		case m == 2 && kind == jsonx.Arr:
			return ast.Method(e, "sort")
		case m == 3 && kind == jsonx.Obj:
			return ast.Method(e, "pluck", ast.Str("a"), ast.Str("zz"))
		case m == 4:
			return ast.Bin("==", e, ast.Null())
		case m == 5:
			return ast.Bin("+", e, ast.Num("1"))
		case m == 6:
			return ast.Method(e, rapid.SampledFrom([]string{"length", "sort", "pluck", "upper", "floor"}).Draw(t, "anymeth"))
		}
		return e
	})
}

func identLike(s string) bool {
	if s == "" {
		return false
	}
	for i, c := range s {
		if !(c == '_' || c >= 'a' && c <= 'z' || c >= 'A' && c <= 'Z' || i > 0 && c >= '0' && c <= '9') {
			return false
		}
	}
	return true
}
