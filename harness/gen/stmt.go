package gen

import (
	"fmt"
	"strings"

	"verif/harness/ast"

	"pgregory.net/rapid"
)

// SG generates structured, terminating, tracing statement lists for the
// control-flow checks. Loops terminate by construction: every while / for loop
// is driven by a fresh counter that nothing else assigns, with a bound read from
// the data or a small literal; recursion decreases a dedicated parameter.
type SG struct {
	T      *rapid.T
	id     int
	Labels map[string]bool
	// Data paths available on $ (the rule's current element): numbers, arrays,
	// objects, strings.
	DNums, DArrs, DObjs, DStrs []string
	Funs                       []Fun // callable user functions (tracing ones)
	AllowNext                  bool  // inside a pattern rule (or a function called from one)
	AllowExit                  bool
	MaxDepth                   int
	budget                     int
}

func NewSG(t *rapid.T) *SG {
	return &SG{T: t, Labels: map[string]bool{}, MaxDepth: 4, budget: 40}
}

func (g *SG) nextID() int { g.id++; return g.id }

type sctx struct {
	depth    int
	loops    int      // number of enclosing loops
	inFunc   bool     // inside a function body
	vars     []string // loop variables in scope (assigned)
	loopKind []string
}

func (g *SG) int(lo, hi int, label string) int { return rapid.IntRange(lo, hi).Draw(g.T, label) }
func (g *SG) bool(label string) bool          { return rapid.Bool().Draw(g.T, label) }

func (g *SG) dpath(p string) *ast.Node { return ast.Mem(ast.Dollar(), p) }

// trace statement: print "T<id>" and the loop variables in scope.
func (g *SG) trace(c *sctx) *ast.Node {
	args := []*ast.Node{ast.Str(fmt.Sprintf("T%d", g.nextID()))}
	for _, v := range c.vars {
		args = append(args, ast.Id(v))
	}
	return ast.Print(args...)
}

// cond draws a condition over the data and the loop variables in scope.
func (g *SG) cond(c *sctx) *ast.Node {
	n := g.int(0, 9, "condkind")
	switch {
	case n <= 3 && len(c.vars) > 0:
		v := ast.Id(c.vars[g.int(0, len(c.vars)-1, "cv")])
		op := rapid.SampledFrom([]string{"==", "!=", "<", ">", ">=", "<="}).Draw(g.T, "cop")
		rhs := rapid.SampledFrom([]*ast.Node{ast.Num("0"), ast.Num("1"), ast.Num("2"), ast.Str("b"), ast.Str("k")}).Draw(g.T, "crhs").Clone()
		return ast.Bin(op, v, rhs)
	case n <= 5 && len(g.DNums) > 0:
		p := g.DNums[g.int(0, len(g.DNums)-1, "dn")]
		return ast.Bin(rapid.SampledFrom([]string{">", "<", "==", ">="}).Draw(g.T, "dop"), g.dpath(p), ast.Num(fmt.Sprint(g.int(0, 3, "dthr"))))
	case n == 6:
		return ast.True()
	case n == 7:
		return ast.False()
	case n == 8 && len(c.vars) > 0:
		return ast.Un("!", ast.Id(c.vars[g.int(0, len(c.vars)-1, "cv2")]))
	}
	if len(g.DNums) > 0 {
		return ast.Bin("==", ast.Bin("%", g.dpath(g.DNums[0]), ast.Num("2")), ast.Num("0"))
	}
	return ast.True()
}

func (g *SG) bound() *ast.Node {
	if len(g.DNums) > 0 && g.bool("databound") {
		return g.dpath(g.DNums[g.int(0, len(g.DNums)-1, "bn")])
	}
	return ast.Num(fmt.Sprint(g.int(0, 3, "litbound")))
}

// Stmts draws a list of statements.
func (g *SG) Stmts(c *sctx, n int) []*ast.Node {
	var out []*ast.Node
	for k := 0; k < n; k++ {
		out = append(out, g.stmt(c)...)
	}
	return out
}

func (g *SG) body(c *sctx, forceBlock bool, pre ...*ast.Node) *ast.Node {
	n := g.int(1, 3, "bodylen")
	stmts := append([]*ast.Node{}, pre...)
	stmts = append(stmts, g.Stmts(c, n)...)
	if !forceBlock && len(stmts) == 1 && g.int(0, 3, "unbraced") == 0 {
		g.Labels["unbraced-body"] = true
		return stmts[0]
	}
	return ast.Block(stmts...)
}

func inner(c *sctx, loopKind string, vars ...string) *sctx {
	n := &sctx{depth: c.depth + 1, loops: c.loops, inFunc: c.inFunc}
	n.vars = append(append([]string{}, c.vars...), vars...)
	n.loopKind = append([]string{}, c.loopKind...)
	if loopKind != "" {
		n.loops++
		n.loopKind = append(n.loopKind, loopKind)
	}
	return n
}

func (g *SG) stmt(c *sctx) []*ast.Node {
	g.budget--
	if c.depth >= g.MaxDepth || g.budget <= 0 {
		return []*ast.Node{g.trace(c)}
	}
	k := g.int(0, 19, "stmtkind")
	switch {
	case k <= 3:
		return []*ast.Node{g.trace(c)}
	case k <= 6: // if / if-else
		cond := g.cond(c)
		then := g.body(inner(c, ""), false)
		if g.bool("else") {
			var els *ast.Node
			if g.int(0, 3, "elseif") == 0 {
				// else-if chain
				els = mkIfElse(g.cond(c), g.body(inner(c, ""), false), g.body(inner(c, ""), false))
				g.Labels["else-if-chain"] = true
			} else {
				els = g.body(inner(c, ""), false)
			}
			// dangling else: an unbraced if directly inside an if-else's then branch
			if g.int(0, 5, "dangling") == 0 {
				// if (a) if (b) s1 else s2   -- the else belongs to the inner if
				g.Labels["dangling-else"] = true
				innerIf := ast.IfElse(g.cond(c), ast.Block(g.trace(c)), els)
				return []*ast.Node{ast.If(cond, innerIf)}
			}
			return []*ast.Node{mkIfElse(cond, then, els)}
		}
		return []*ast.Node{ast.If(cond, then)}
	case k <= 8: // while
		w := fmt.Sprintf("w%d", g.nextID())
		ic := inner(c, "while", w)
		g.noteNest(c, "while")
		loop := ast.While(ast.Bin("<", ast.Post("++", ast.Id(w)), g.bound()), g.body(ic, true))
		return []*ast.Node{ast.ExprS(ast.Set(ast.Id(w), ast.Num("0"))), loop}
	case k <= 10: // for
		f := fmt.Sprintf("f%d", g.nextID())
		ic := inner(c, "for", f)
		g.noteNest(c, "for")
		var post *ast.Node
		var cond *ast.Node = ast.Bin("<", ast.Id(f), g.bound())
		switch {
		case g.hasFun("tickx") && g.int(0, 7, "stoppost") == 0:
			// the post-expression (or the condition) calls a function that ends the
			// rule (next) or the run (exit) at a given step
			stop := rapid.SampledFrom([]string{"tickx", "tickn"}).Draw(g.T, "stopper")
			call := ast.Call(ast.Id(stop), ast.Str(f), ast.Id(f), ast.Num(fmt.Sprint(g.int(0, 3, "stopat"))))
			if g.bool("stopincond") {
				post = ast.Post("++", ast.Id(f))
				cond = ast.Bin("<", ast.Bin("-", call, ast.Num("1")), g.bound())
				g.Labels["for-cond-stops-run-or-rule"] = true
			} else {
				post = ast.Set(ast.Id(f), call)
				g.Labels["for-post-stops-run-or-rule"] = true
			}
		case g.bool("tickpost") && g.hasFun("tick"):
			post = ast.Set(ast.Id(f), ast.Call(ast.Id("tick"), ast.Str(f), ast.Id(f)))
			g.Labels["for-post-traced"] = true
		default:
			post = ast.Post("++", ast.Id(f))
		}
		loop := ast.For(ast.Set(ast.Id(f), ast.Num("0")), cond, post, g.body(ic, false))
		return []*ast.Node{loop}
	case k <= 13: // for-in
		if g.int(0, 6, "shrinkingforin") == 0 {
			// the body removes elements of the array being iterated (directly or through a
			// second name): every element the array had when the loop began is still visited
			id := g.nextID()
			q, v := fmt.Sprintf("q%d", id), fmt.Sprintf("v%d", id)
			target := q
			pre := []*ast.Node{ast.ExprS(ast.Set(ast.Id(q), ast.Arr(ast.Num("10"), ast.Num("20"), ast.Num("30"), ast.Num("40"), ast.Num("50"))))}
			if g.bool("viaalias") {
				target = q + "b"
				pre = append(pre, ast.ExprS(ast.Set(ast.Id(target), ast.Id(q))))
			}
			ic := inner(c, "forin-arr", v)
			body := g.body(ic, true)
			m := rapid.SampledFrom([]string{"pop", "popfirst"}).Draw(g.T, "shrinkop")
			body.C = append([]*ast.Node{ast.ExprS(ast.Set(ast.Id("shr"), ast.Method(ast.Id(target), m)))}, body.C...)
			g.noteNest(c, "forin-arr")
			g.Labels["forin-over-an-array-the-body-shrinks"] = true
			return append(pre, ast.ForIn(v, "", ast.Id(q), body), ast.Print(ast.Str("Q"), ast.Id(q)))
		}
		return []*ast.Node{g.forIn(c)}
	case k == 14 && c.loops > 0: // break / continue
		kw := ast.Break()
		name := "break"
		if g.bool("continue") {
			kw, name = ast.Continue(), "continue"
		}
		if c.loops >= 2 {
			g.Labels[name+"-in-nested-loop"] = true
			g.Labels["inner:"+c.loopKind[len(c.loopKind)-1]+"/outer:"+c.loopKind[len(c.loopKind)-2]] = true
		}
		g.Labels["has-"+name] = true
		if g.int(0, 4, "barectl") == 0 {
			return []*ast.Node{g.trace(c), kw}
		}
		return []*ast.Node{ast.If(g.cond(c), ast.Block(g.trace(c), kw))}
	case k == 15 && c.inFunc: // return
		var val *ast.Node
		if g.bool("retval") {
			val = ast.Num(fmt.Sprint(g.nextID()))
		}
		if c.loops > 0 {
			g.Labels["return-from-loop"] = true
		}
		g.Labels["has-return"] = true
		if g.int(0, 4, "bareret") == 0 {
			return []*ast.Node{g.trace(c), ast.Return(val)}
		}
		return []*ast.Node{ast.If(g.cond(c), ast.Block(g.trace(c), ast.Return(val)))}
	case k == 16 && (g.AllowNext || g.AllowExit):
		var kw *ast.Node
		name := ""
		if g.AllowNext && (!g.AllowExit || g.bool("nextnotexit")) {
			kw, name = ast.Next(), "next"
		} else {
			kw, name = ast.Exit(), "exit"
		}
		if c.loops > 0 {
			g.Labels[name+"-in-loop"] = true
		}
		if c.inFunc {
			g.Labels[name+"-in-function"] = true
		}
		g.Labels["has-"+name] = true
		if g.int(0, 5, "barenx") == 0 {
			return []*ast.Node{g.trace(c), kw}
		}
		return []*ast.Node{ast.If(g.cond(c), ast.Block(g.trace(c), kw))}
	case k == 17 && len(g.Funs) > 0 && !c.inFunc: // call a tracing function
		f := g.Funs[g.int(0, len(g.Funs)-1, "fn")]
		if strings.HasPrefix(f.Name, "tick") {
			return []*ast.Node{g.trace(c)}
		}
		args := make([]*ast.Node, f.Arity)
		for a := range args {
			args[a] = ast.Num(fmt.Sprint(g.int(0, 3, "arg")))
		}
		g.Labels["calls-function"] = true
		if c.loops > 0 {
			g.Labels["call-in-loop"] = true
		}
		r := fmt.Sprintf("r%d", g.nextID())
		return []*ast.Node{ast.ExprS(ast.Set(ast.Id(r), ast.Call(ast.Id(f.Name), args...))), ast.Print(ast.Str("ret"), ast.Id(r))}
	case k == 18: // nested block
		return []*ast.Node{ast.Block(g.Stmts(inner(c, ""), g.int(1, 2, "blocklen"))...)}
	}
	return []*ast.Node{g.trace(c)}
}

func (g *SG) hasFun(name string) bool {
	for _, f := range g.Funs {
		if f.Name == name {
			return true
		}
	}
	return false
}

func (g *SG) noteNest(c *sctx, kind string) {
	if c.loops >= 1 {
		g.Labels["nested-loops"] = true
		g.Labels["nest:"+c.loopKind[len(c.loopKind)-1]+">"+kind] = true
	}
}

var forInStrings = []string{"", "a", "abc", "héllo", "日本語", "a😀b", "x y"}

func (g *SG) forIn(c *sctx) *ast.Node {
	id := g.nextID()
	v := fmt.Sprintf("v%d", id)
	w := ""
	if g.bool("withindex") {
		w = fmt.Sprintf("i%d", id)
	}
	vars := []string{v}
	if w != "" {
		vars = append(vars, w)
	}
	var it *ast.Node
	var pre []*ast.Node
	kind := g.int(0, 9, "iterkind")
	switch {
	case kind <= 3: // array
		if len(g.DArrs) > 0 && g.bool("dataarr") {
			it = g.dpath(g.DArrs[g.int(0, len(g.DArrs)-1, "da")])
		} else {
			n := g.int(0, 3, "arrlen")
			items := make([]*ast.Node, n)
			for k := range items {
				items[k] = rapid.SampledFrom([]*ast.Node{ast.Num("1"), ast.Num("2"), ast.Str("b"), ast.Null(), ast.True(), ast.Num("0")}).Draw(g.T, "item").Clone()
			}
			it = ast.Arr(items...)
			if n == 0 {
				g.Labels["forin-empty-array"] = true
			}
		}
		if g.hasFun("iterx") && g.int(0, 5, "stopiter") == 0 {
			// the iterable comes out of a function that may end the rule (next) or the run (exit)
			stop := rapid.SampledFrom([]string{"iterx", "itern"}).Draw(g.T, "iterstopper")
			it = ast.Call(ast.Id(stop), ast.Str(v), it, ast.Num(fmt.Sprint(g.int(0, 1, "iterstops"))))
			g.Labels["for-in-iterable-stops-run-or-rule"] = true
		}
		g.noteNest(c, "forin-arr")
		return ast.ForIn(v, w, it, g.body(inner(c, "forin-arr", vars...), false))
	case kind <= 6: // object: the body starts with the key-order marker
		if len(g.DObjs) > 0 && g.bool("dataobj") {
			it = g.dpath(g.DObjs[g.int(0, len(g.DObjs)-1, "do")])
		} else {
			n := g.int(0, 3, "objlen")
			keys := []string{"k", "b", "a", "z"}
			var kvs []*ast.Node
			for k := 0; k < n; k++ {
				kvs = append(kvs, ast.KV(keys[k], ast.Num(fmt.Sprint(k))))
			}
			it = ast.Paren(ast.Obj(kvs...))
			if n >= 2 {
				g.Labels["forin-object-multikey"] = true
			}
		}
		marker := ast.Print(ast.Str(fmt.Sprintf("K%d", id)), ast.Id(v))
		pre = append(pre, marker)
		g.noteNest(c, "forin-obj")
		return ast.ForIn(v, w, it, g.body(inner(c, "forin-obj", vars...), true, pre...))
	default: // string
		if len(g.DStrs) > 0 && g.bool("datastr") {
			it = g.dpath(g.DStrs[g.int(0, len(g.DStrs)-1, "ds")])
		} else {
			s := rapid.SampledFrom(forInStrings).Draw(g.T, "str")
			it = ast.Str(s)
		}
		g.noteNest(c, "forin-str")
		return ast.ForIn(v, w, it, g.body(inner(c, "forin-str", vars...), false))
	}
}

// RuleBody draws the body of a pattern rule.
func (g *SG) RuleBody(n int) *ast.Node {
	c := &sctx{}
	return ast.Block(g.Stmts(c, n)...)
}

// FuncBody draws the body of a tracing function with the given parameters
// (treated as assigned variables).
func (g *SG) FuncBody(params []string, n int) *ast.Node {
	c := &sctx{inFunc: true, vars: append([]string{}, params...)}
	stmts := g.Stmts(c, n)
	if g.bool("finalreturn") {
		stmts = append(stmts, ast.Return(ast.Num(fmt.Sprint(g.nextID()))))
	}
	return ast.Block(stmts...)
}

// mkIfElse builds if-else; a then-branch that ends in an else-less if is braced,
// otherwise the else would attach to that inner if.
func mkIfElse(cond, then, els *ast.Node) *ast.Node {
	if ast.OpenIf(then) {
		then = ast.Block(then)
	}
	return ast.IfElse(cond, then, els)
}
