#!/bin/sh
# Run checks against a scratch copy of /repo with a patch applied.
# Usage: tools/mutant.sh [-R] <patch file | commit:SHA> <prop> [<prop> ...]
#   -R           apply the patch in reverse (re-introduce a fixed defect)
#   commit:SHA   use the diff of that /repo commit as the patch
set -e
REV=""
if [ "$1" = "-R" ]; then REV="-R"; shift; fi
PATCH=$1; shift
D=$(mktemp -d /tmp/jqmut.XXXXXX)
trap 'rm -rf "$D"' EXIT
rsync -a --exclude .git --exclude /jqawk /repo/ "$D"/
case "$PATCH" in
  commit:*) git -C /repo show "${PATCH#commit:}" > "$D/.patch" ;;
  *) cp "$PATCH" "$D/.patch" ;;
esac
(cd "$D" && git init -q . && git apply $REV .patch) || { echo "PATCH DOES NOT APPLY"; exit 3; }
rc=0
for P in "$@"; do
  VERIF_REPO="$D" VERIF_FOUND_DIR=/verif/found/mut /verif/check "$P" ${TIER:+--tier $TIER} | grep -v '^    \|^  check=' | head -${LINES_MAX:-8} || true
done
