#!/bin/sh
# Evaluate a seeded change delivered by a sub-agent.
# Usage: tools/seed_eval.sh <dir with patch.diff, demo_test.go|demo.sh, meta.json> <prop> [more props...]
# Confirms in a scratch copy: the demo passes on the clean tree, the patch applies, the project's
# suite still passes, the demo fails with the patch; then runs the named checks against it.
DIR=$(cd "$1" && pwd); shift
export GOFLAGS=-mod=mod GOPROXY=off GOSUMDB=off GOTOOLCHAIN=local
D=$(mktemp -d /tmp/jqseed.XXXXXX)
trap 'rm -rf "$D"' EXIT
rsync -a --exclude .git --exclude /jqawk /repo/ "$D"/
cd "$D" && git init -q . >/dev/null 2>&1
rundemo() {
  if [ -f "$DIR/demo_test.go" ]; then
    cp "$DIR/demo_test.go" "$D/zz_demo_test.go"
    (cd "$D" && go build -o jqawk . && timeout 300 go test -run 'TestSeeded' -count=1 . >/tmp/seeddemo.$$ 2>&1 </dev/null); rc=$?
    rm -f "$D/zz_demo_test.go" "$D/jqawk"
  else
    cp "$DIR/demo.sh" "$D/zz_demo.sh"
    (cd "$D" && timeout 300 bash ./zz_demo.sh >/tmp/seeddemo.$$ 2>&1 </dev/null); rc=$?
    rm -f "$D/zz_demo.sh" "$D/jqawk"
  fi
  return $rc
}
if rundemo; then echo "demo on clean tree: PASS (as required)"; else echo "demo on clean tree: FAIL (bad seed)"; tail -5 /tmp/seeddemo.$$; rm -f /tmp/seeddemo.$$; exit 3; fi
(cd "$D" && git apply "$DIR/patch.diff") || { echo "patch does not apply"; exit 3; }
(cd "$D" && go build -o jqawk . && go test -count=1 -vet=off ./... >/tmp/seedsuite.$$ 2>&1 </dev/null); rc=$?; rm -f "$D/jqawk"
if [ $rc -eq 0 ]; then echo "project suite with the change: PASS (as required)"; else echo "project suite with the change: FAIL (bad seed)"; tail -5 /tmp/seedsuite.$$; rm -f /tmp/seedsuite.$$ /tmp/seeddemo.$$; exit 3; fi
if rundemo; then echo "demo with the change: PASS (bad seed: should fail)"; rm -f /tmp/seedsuite.$$ /tmp/seeddemo.$$; exit 3; else echo "demo with the change: FAIL (as required)"; fi
rm -f /tmp/seedsuite.$$ /tmp/seeddemo.$$
for P in "$@"; do
  out=$(VERIF_REPO="$D" VERIF_FOUND_DIR=/verif/found/seed /verif/check "$P" ${TIER:+--tier $TIER} 2>&1)
  if echo "$out" | grep -q "^VIOLATION"; then echo "check $P: CAUGHT"; echo "$out" | grep -A2 "^VIOLATION" | head -4
  else echo "check $P: MISSED"; echo "$out" | tail -2; fi
done
