#!/usr/bin/env python3
"""Regenerate /verif/MANIFEST.json from the table below (keeps it schema-valid)."""
import json, os
ROOT = os.path.dirname(os.path.dirname(os.path.abspath(__file__)))

# id -> (category, technique, level text, level note, design ref)
P = {
 "C06": ("exploration", "exhaustive enumeration of operator pairs and triples in every tree shape + rapid PBT; metamorphic (minimal vs full vs redundant parentheses) and differential against the reference evaluation of the intended tree",
   "All 15^2 pairs and 15^3 triples of binary operators over two operand sets in every tree shape, every prefix operator against every binary operator and postfix form, is, assignment chains, then 10k (quick) / 150k (thorough) random trees to depth 6/8. Each intended tree is rendered three ways; the renderings must agree with each other and with refjq. Exploration, exhaustive over operator pairs and triples.",
   "Trusted: the harness renderer inserts exactly the parentheses table 3.9 requires (its output for the intended tree is the statement of what the text means); refjq for values. ++/-- only inside parentheses, as the property states.", "5/C06, 3.9"),
 "C01": ("exploration", "rapid PBT over mutated structured programs, arbitrary bytes and hostile constants + exhaustive small-scope enumeration of control-keyword placements; validity predicate over the outcome (nil / SyntaxError / RuntimeError / JsonError, no recovered panic, process survives; binary: exit 0/1, diagnostic iff 1, no stack trace), deterministic termination through the verif cost-budget hook",
   "G2 complete: 6 control statements x 10 kinds of place x 5 wrappers x 3 inputs = 900 programs, each also through the binary with and without -o -; 86 hostile constants (nests to depth 20000, runaway recursion, doubling loops, cyclic values, limits); 16k (800k thorough) mutated structured programs with selectors and hostile inputs; 6k (400k) byte-level cases. Thorough adds native coverage-guided fuzzing. Exploration (G2: exhaustive over a stated finite scope).",
   "A run stopped by the cost budget (200k units) is inconclusive (discarded, counted). Go fatal errors are caught by re-running the in-flight case in a fresh process. Texts nesting beyond 64 KiB are outside the claim.", "5/C01"),
 "C02": ("exploration", "rapid PBT + exhaustive small-scope enumeration of rule mixes; differential against a reference model of the awk-style rule schedule",
   "Tracing programs (every rule prints its id, $file, $, $index) over generated configurations of files x values x selectors x root shapes are compared line by line with the schedule of DESIGN.md 4.1; plus every ordered choice of <= 3 rules x {exit|next|none in rule j} x 3 fixed configurations, completely. Exploration (model-based differential). Plus fixed long inputs (up to 140000 elements, next on every / every other / every third element; direct oracle), programs of 13-40 rules, rules that overwrite $index / $file or change the root below its top level.",
   "Trusted: refjq's driver as the documented schedule. Not asserted (discarded, counted): $index outside array roots, $file outside file processing, `next` outside pattern rules, $ in ENDFILE after the root was replaced.", "5/C02, 4.1"),
 "C07": ("exploration", "rapid PBT over a structured-program grammar; differential against a reference model of the statement semantics (trace equality)",
   "Generated programs nest if/else (incl. dangling else), while, three-clause for, for-in over arrays/objects/strings and blocks to depth 4 (6 thorough) with break/continue/return/next/exit at arbitrary positions, conditions and bounds read from a generated document; every statement position prints a trace line; the whole trace must equal refjq's. 15k programs quick, 300k thorough. Exploration (model-based differential).",
   "Trusted: refjq's statement semantics (DESIGN.md 4.4). Object key order is not asserted (any order, each key once; determinism is C10's). Loops terminate by construction.", "5/C07, 4.4"),
 "C08": ("exploration", "rapid PBT differential against a reference frame model + long operation histories with a metamorphic oracle (output for N elements = N x output for one)",
   "(a) 8k (150k thorough) programs with 1-4 functions called from every expression position, probing after each call every name a callee touched; (b) every construct that pushes a frame (call, match expression/block body, return in a match block, next in a function, break/continue in match blocks) run over 1...20000 elements and as 1...20000 loop iterations, followed by a depth-1000 recursion. Exploration (model-based, long histories). Fixed cases with a direct oracle: histories up to 70000 repetitions (past the nesting limit of 65536), recursion through arguments of other calls up to depth 4000.",
   "Trusted: refjq's frame model (DESIGN.md 4.2). Reads of names living only in a caller's frame (dynamic scope) are unspecified and never generated.", "5/C08, 4.2"),
 "C09": ("exploration", "rapid stateful (model-based) PBT: straight-line programs built one action per step, every variable and $ dumped after each step, differential against a reference location model; plus a model-free metamorphic check (read-only programs leave the document unchanged)",
   "6k (120k thorough) histories of up to 15 (40) actions over variables, unset names and $-paths: stores through chains of depth 1-4 with every index class, op=, ++/--, aliasing, stores through parameters and for-in variables, reads of missing paths; all variables and the document are compared with refjq after every action and GetRootJson at the end. 6k (120k) read-only programs must leave the document bit-for-bit equal. Exploration (stateful model-based). Plus long arrays (0-300 elements) shared by four references and changed in runs of up to 200 pushes / pops through alternating references.",
   "Trusted: refjq's location model (DESIGN.md 4.3). The former open finding KF-array-alias (array length per copy, D11) is repaired (6b0c01c); its exclusion class is dormant and all aliasing, length changes included, is asserted.", "5/C09, 4.3"),
 "C10": ("exploration", "rapid PBT, metamorphic over run histories: sessions of interleaved repeated runs (A B A C B A ...) in one process, plus fresh-process repeats through the binary that must also agree with the run inside the long-lived process; every execution of the same (program, selectors, input) must be byte-identical in stdout, JSON output and error",
   "2.5k (60k thorough) sessions of 2-4 triples x 8 executions each: objects with 2-12 keys printed / iterated / formatted from every source, method lookups of every prototype, 'intruder' programs that assign to method names and builtins, and programs from five other generators including failing ones. Exploration (metamorphic: repeat / interleave). Families added after the review rounds: first use of a kind of value in a process, printf that fails part-way, literals with side effects, selectors with side effects, ==-but-differently-printed values, sort modes.",
   "Probabilistic for randomised orders (<= 3^-7 per case with >= 3 keys); state leaking between runs is only found if some generated program observes it.", "5/C10"),
 "C11": ("fault_enumeration", "rapid PBT with fault injection: (a) syntax-error splices at generated positions with a model-free oracle (SyntaxError, no output); (b) 23 runtime fault kits injected into syntactic slots chosen uniformly over 29 slot kinds, differential against a reference model that decides whether the slot is reached",
   "(a) 6k (200k thorough) splices of 11 recipe families (incl. loop control in loop headers, for-in without in, compound / unary / ++ assignment to non-assignable targets) into valid tracing programs at any token boundary / statement start; (b) 12k (300k) faulted programs: if refjq reaches the kit the run must be a RuntimeError with exactly the prior output, if the slot is dead the program must behave as without the fault; the evidence lists the kit x slot-kind matrix. Fault enumeration: every fault kind at every syntactic slot kind, over generated surrounding programs.",
   "Trusted: refjq for reachability and prior output; every kit is a runtime error by the documents. A stray comma on a line of its own after a print statement is legal by the grammar (it continues the print list) and is not used.", "5/C11"),
 "C13": ("exploration", "rapid PBT, metamorphic: random legal layouts (spacing, tabs, CR, newlines, comments, ';' vs newline, quote style) of one token sequence must behave like the canonical layout; differential against refjq for what literals denote",
   "8k (200k thorough) programs - a lexical family (odd number spellings glued to operators, keyword-like identifiers, strings over all bytes, valid and invalid escapes in live and dead positions, bare print before further statements) plus the control-flow, call, match, value and printf generators - each laid out 4 (8) random ways under the property's own exceptions; stdout and outcome class must equal the canonical layout's. Exploration (metamorphic). Numeric receivers written without parentheses (2.5.floor()), signed literals with suffixes, quoted object keys, integer literals up to 30 digits, programs ending in a literal, every way of ending the text after the last token.",
   "Trusted: the renderer's gluing rules (two tokens may touch unless they would fuse) and the property's list of places where a newline is significant. Error messages and positions are not compared (C12).", "5/C13"),
 "C14": ("exploration", "rapid PBT over command-line configurations materialised in private directories: differential (binary vs library interpreter) plus metamorphic relations between configurations (-f vs inline, stdin vs file, -o FILE vs -o -, -r E vs BEGINFILE { $ = E })",
   "500 (30k thorough) configurations x 3-6 subprocesses each: program inline / -f, stdin / 1-3 files / missing file / directory, 0-2 selectors, -o absent / - / path / unwritable path, programs from four generators including failing ones, and degenerate program texts (empty, blank, comment only). Exploration (differential CLI vs library + metamorphic).",
   "Trusted: lang.EvalProgram + GetRootJson as the reference for the binary. A watchdog kill (20 s) is inconclusive and dropped. Open finding KF-selector-scope (a -r selector sees nothing but $): oracle (6) is not applied to selectors that mention $file or a global, and those cases are counted as excluded.", "5/C14"),
 "C15": ("exploration", "rapid stateful (model-based) PBT: one list operation per step on five arrays, results and all contents printed after every step, differential against a reference list model",
   "6k (120k thorough) histories of up to 20 (60) operations - push, pop, popfirst, index read/write with every index class, length, contains, sort, and method calls nested in each other's arguments - on arrays held by variables, by the document and by an object; after every step the result and every array with its length are compared with refjq's ideal list, and the final document with the reference root. Exploration (stateful model-based). Plus long-shared (as C09), pad-then-store, sort-then-store, chained operations on the result of push, contains with an unset needle.",
   "Trusted: refjq's list model (DESIGN.md 4.8, section 3.6 for contains, string form for sort). Arrays are reached through the name or path that holds them, as the property states; aliasing is C09's subject.", "5/C15, 4.8"),
 "C16": ("exploration", "rapid PBT with direct oracles per contract: algebraic laws (round trip join/split, idempotence, receiver unchanged), exact rational arithmetic for floor/ceil/round and num(), an explicit model for pluck; misuse cases differential against refjq",
   "20k (600k thorough) contract cases over strings (all valid UTF-8, separators at the ends / doubled / overlapping / empty), doubles (halves of both signs, 2^52 and 2^53 neighbourhoods, tiny), objects x key lists (present, absent, repeated, numeric, method-named) and numeric strings; 8k (200k) misuse cases (every method and builtin x every receiver kind x 0-3 arguments) must give a value or a runtime error and agree with refjq where it specifies. Exploration (algebraic laws + reference). Plus rawsplit (receivers that are not UTF-8, as raw bytes of the program text), kindswitch (length() through one name over strings, arrays and objects), split called again after its first result was modified.",
   "Trusted: Go's unicode tables for non-ASCII case mapping, math/big, and json() as the observation device. Exotic numeric strings (hex floats, inf/nan, underscores, surrounding whitespace, overflow) are not asserted.", "5/C16, 4.8"),
 "C17": ("exploration", "rapid PBT: round trip (printed number -> exact decimal -> identical double; printed container -> strict JSON parse -> equal value) and differential against a reference renderer for sharing and cycles",
   "12k (1.5M thorough) doubles from all strata plus uniformly random bit patterns, via JSON input, literals and arithmetic: the text must be positional decimal and convert back, with exact rational arithmetic, to the identical bit pattern. 8k (200k) programs build values with empty containers, shared sub-structures and cycles of any length through arrays/objects by element and member stores and print them with 0-4 arguments: exact bytes from refjq, <circular reference> exactly at recurrence points. 5k (100k) documents: the rendering parses as JSON equal to the value. Exploration (round trip + model). Plus galleries of containers, cycles added after a first print, a print inside a print argument, fixed values nested up to 30000 deep.",
   "Trusted: refjq's rendering rules (DESIGN.md 4.6), math/big, the harness's strict JSON recogniser. Object key order is accepted in any order.", "5/C17, 4.6"),
 "C18": ("exploration", "rapid PBT over a format-string grammar; differential against a reference formatter",
   "25k (500k thorough) single printf calls: formats assembled from literal bytes, %[width]{s,f,v}, %%, unknown directives, dangling % / width; widths chosen relative to the rendering length (len-1, len, len+1, negative, zero-padded, at and beyond the 65536 limit, 25 digits); arguments of every kind, fitting, wrong, missing, surplus. Exact stdout bytes, or RuntimeError with nothing of the printf written and earlier output kept. Exploration (reference formatter). Plus printf-site-reuse (one printf site inside a function, 2-3 calls with independent formats).",
   "Trusted: refjq's formatter (DESIGN.md 4.7). A width on %% and %-0N are unspecified and discarded.", "5/C18, 4.7"),
 "C19": ("exploration", "rapid PBT over match expressions (patterns aimed to hit or miss the subject); differential against a reference model of case selection, binding and evaluation order",
   "15k (300k thorough) programs with 1-3 match expressions: subjects of every kind, 1-5 cases x 1-3 alternatives (literals, identifiers, nested array patterns, deliberate misses), expression and block bodies with return/next/continue, poisoned later patterns that fault if evaluated, match in every syntactic use. Printed values and side-effect traces must equal refjq's. Exploration (model-based differential). Plus unset subjects, a match re-evaluated with other subjects (1, \"1\", \"1.0\", true ...), matches nested in case bodies, next through an expression body.",
   "Trusted: refjq's match semantics (DESIGN.md 4.5). Negative-number, regex and other expression patterns are unspecified and not generated; assignment to a bound name is not generated.", "5/C19, 4.5"),
 "C03": ("fault_enumeration", "rapid PBT with an owned io.Reader: per generated stream every truncation point and every read-error position is enumerated (plus sampled byte corruption and stray characters) under generated chunking schedules; oracles: non-incremental reference splitter, composition law over per-value outputs, chunking independence, and read barriers for incrementality (no clocks)",
   "1200 (40k thorough) streams of 0-6 values x 5 tracing programs x chunkings; for streams up to 60 (200) bytes every byte position is a truncation point, a read-error point and a read-error-with-data point: about 70k executions in the quick tier. A fault must surface as JsonError naming the file after exactly the output of the complete values; the output of value k must be written before the reader is asked for bytes beyond k+1. Fault enumeration (every truncation / error position of each generated stream). The reported error text must not depend on the chunking; a one-off error delivered together with data is a fault mode of its own; a sample runs through the binary with print and printf output.",
   "Trusted: encoding/json used non-incrementally as the reference splitter (the JSON grammar is not under test, the streaming loop is). After a read error directly behind a top-level scalar the scalar may or may not count as complete.", "5/C03"),
 "C04": ("exploration", "rapid PBT, round trip: generated documents / program-built values -> -o or json() -> the harness's own strict JSON recogniser -> equality with the input as read or with refjq's value; cyclic and inexpressible values must be rejected",
   "10k (300k thorough) documents with random spelling (whitespace, escapes, number forms, duplicate keys, forced empty containers) through 8 non-modifying programs and 0-1 selector, a sample through the binary with -o - and -o FILE; 6k (150k) program-built values (auto-created, plucked, shared, cyclic of every shape, regex) through json() and as the root for -o; non-finite numbers. Exploration (round trip). Plus json() of one container before and after size-preserving changes, and fixed documents at the decoder's nesting boundary.",
   "Trusted: package jsonx (strict RFC 8259 recogniser, order-free equality, exact decimal -> double), refjq for the value a program builds. Strings are valid UTF-8 (JSON cannot carry other bytes).", "5/C04"),
 "C12": ("exploration", "rapid PBT: single-line faults (illegal characters incl. multi-byte, stray tokens, out-of-context keywords, invalid assignment targets, 23 runtime kits) inserted at recorded byte spans into multi-line programs with blank lines, comments, CRLF, tabs and non-ASCII text; validity predicate over the reported Line / Col / SrcLine",
   "15k (400k thorough) programs of up to 60 lines; the reported line must be the fault's line, SrcLine exactly that line of the text, and the byte column inside the inserted construct (exactly on a single-byte illegal character); faults also sit on an inner line of a multi-line construct, in an unterminated literal at the end, or are an early end of the program; the program is preceded / followed by blank lines, indentation and comments; every error also satisfies Line >= 1, SrcLine == line Line and 0 <= Col <= len(SrcLine); 300 (8000) cases compare the binary's three stderr lines for the program given with -f. Exploration.",
   "Trusted: the renderer's recorded token offsets. For a multi-byte illegal character any byte of it is accepted as the column.", "5/C12"),
 "C20": ("exploration", "boundary-value enumeration: ladders of magnitudes around each limit, every rung run through the binary in an isolated subprocess (rusage, memory cap), validity predicate over (exit status, stdout, stderr, peak RSS), monotonicity along each ladder; rapid PBT of random points around the switch points in-process",
   "About 460 rungs in the quick tier (more shapes and depths in thorough): 10 recursion shapes x depths 1...10^5, 6 array-index shapes x indices 0.5...10^18 and 1e300, printf widths +-1...10^12 x 3 directives, input nesting 100...10^5 (10^6) x 3 shapes; plus 300 (20k) random in-process points that must agree with the switch point found by bisection. Exploration (boundary-value enumeration). Heavy recursion shapes (100 binary / 120 unary operators / 150 blocks around the call), parity-shifted runaway matches, widths at the 64-bit wrap points, and the stated magnitudes after a fuzzing-mode run in the same process.",
   "The thresholds asserted are the statement's (depth 1000 works / 10^4 refused; a million elements work / index 2*10^6 refused; width 65536 works / 65537 refused; nesting 1000 works / 10^5 refused), not the code's constants; between them only monotonicity is asserted. A 90 s watchdog kill is inconclusive.", "5/C20"),
 "C05": ("exploration", "exhaustive small-scope enumeration + rapid PBT, differential against a reference model of the section-3 operator tables",
   "Every operator x every ordered pair of 40 representative operands x 3-4 supply modes is enumerated completely (about 66k programs), then 20k (quick) / 150k (thorough) random operand pairs; each result is compared in kind, value and error class with the section-3 tables. Exploration, exhaustive over the stated representative grid: it decides the table on the grid, not on every double. Further sub-checks: operand-order (the right operand changes what the left one names), pattern-syntax (28 RE2 patterns x 15 subjects as string, variable and regex literal), numeric-strings (digit strings of 1-25 digits around 2^31 ... 2^64).",
   "Trusted: refjq's transcription of DESIGN.md section 3; Go's regexp for RE2; exotic numeric strings, non-finite results and |x| >= 2^53 for % are unspecified and discarded (counted).", "5/C05, 3"),
}

# additions of the sixth round of seeded changes (appended to the coverage text)
ADD = {
 "C20": "The large index on a missing intermediate of the store.",
 "C19": "A nested array pattern matching a proper prefix of the inner array; block bodies of one expression statement.",
 "C17": "Sub-check bare-print: bare prints interleaved with stores below $ and assignments of $.",
 "C06": "Regex literals in operand positions (x ~ /re/ + s groups as x ~ (/re/ + s)).",
 "C01": "Flat texts up to 64 KiB (thousands of blank lines, comment lines, statements, rules, elements, one long string or comment) go through the binary with their expected output. 18 ways of bringing a value into being x 18 immediate uses, each as the only thing a fresh process does.",
 "C02": "A pattern may itself run next (inside a function it calls). BEGIN / END rules that assign $ (the next one starts with $ null again).",
 "C03": "The reader also delivers its last bytes together with io.EOF (whole stream, and at every truncation point). The with-EOF reader mode is also combined with corrupted bytes and stray text.",
 "C04": "A sample of rejected roots (cyclic, inexpressible, non-finite) goes through the binary with -o FILE (absent, existing, the input file itself): non-zero exit, a diagnostic, and the file afterwards absent or a well-formed document. Two json() results in one statement.",
 "C05": "Sub-check operator-reentered: a recursive function whose recursive call is the right / left / both operands of the operator. `is` with 11 words that name no type x every operand: false or refused (direct oracle).",
 "C07": "An ENDFILE rule in every program and, in a third of the cases, further input values whose root is an object, a number or a string.",
 "C08": "Match cases with several alternatives of which the earlier ones bind names and then fail. Return from for-in loops over strings, arrays and objects.",
 "C09": "A match case (expression or block body) that binds the name of a variable, followed by assignments to that variable. Pattern names bound to containers and assigned to; a store below a scalar that the right-hand side has just made.",
 "C10": "The n-th execution of a program reads the same input bytes through a different reader (whole, with EOF attached, one byte per read, half reads); one program of a session may run in the library's fuzzing mode; a deep-recursion family (40-1000 frames, to 4090 thorough); programs without input files are compared with a fresh process too.",
 "C11": "Kits storing to a method-named member of a number, string or array (=, ++, +=); splice recipe ends-mid-construct (the text stops on its last byte inside a construct). Kits comparing a container with itself; illegal bytes that other tools treat as blanks.",
 "C12": "Lines longer than 120 bytes (very wide gaps, a 200-byte comment); kits with the fault in the first or middle one of three constructs of a kind; an unknown $-variable in each for-in variable position.",
 "C13": "A quoted literal and a numeric literal with the same spelling in one program, used type-sensitively in either order. Escaped backslash followed by n / t; a word glued to a following $.",
 "C15": "Arrays re-made from one all-literal array literal that is evaluated again and again. Two empty arrays of the document; one length() site seeing a string, an object and the array.",
 "C16": "pluck: a store into one member of a multi-key result leaves the other members (absent ones included) as they were. Two length() results in one statement.",
 "C20": "Recursion shapes repeated (eight times in one run) and repeated-per-value (once for each of 40 input values).",
}

PENDING_REASON = "(unused) check not built yet in this round (work in progress; the design in DESIGN.md section 5 applies)"

def main():
    ids = [json.loads(l)["id"] for l in open(os.path.join(ROOT, "properties.jsonl"))]
    checks, na = [], []
    for pid in ids:
        if pid in P:
            cat, tech, text, note, ref = P[pid]
            if pid in ADD:
                text = text + " " + ADD[pid]
            checks.append({
                "property_id": pid,
                "quick_cmd": "./check %s --tier quick" % pid,
                "thorough_cmd": "./check %s --tier thorough" % pid,
                "evidence_file": "/verif/evidence/%s.json" % pid,
                "replay_cmd_template": "./check %s --replay {path}" % pid,
                "engine": "harness",
                "level_claimed": {"category": cat, "text": text, "design_ref": "DESIGN.md section " + ref},
                "level_note": note,
                "technique": tech,
            })
        else:
            na.append({"property_id": pid, "reason": PENDING_REASON})
    m = {
        "version": 1,
        "setup_cmd": "cd /verif/harness && GOFLAGS=-mod=mod GOPROXY=off GOSUMDB=off GOTOOLCHAIN=local go vet -tags verif ./... && GOFLAGS=-mod=mod GOPROXY=off GOSUMDB=off GOTOOLCHAIN=local go test -c -tags verif -o /dev/null ./props",
        "hooks": {
            "guard": "verif",
            "enable": "go build tag: every check compiles /repo with `-tags verif` through the harness module's `replace github.com/alligator/jqawk => /repo`",
            "baseline_off_cmd": "/verif/tools/repotest.sh /repo",
            "source_commits": ["84fe05e"],
            "add_only": True,
        },
        "engines": [{
            "name": "harness",
            "path": "/verif/harness",
            "serves_properties": [c["property_id"] for c in checks],
            "kind_free_text": "Go module: own AST + renderer, reference interpreter refjq, rapid v1.3.0 generators, in-process and CLI runners, evidence/replay writer; driven by the python3 script /verif/check",
        }],
        "checks": checks,
        "not_applicable": na,
        "notes": "Property-based testing and fuzzing throughout (pgregory.net/rapid v1.3.0, exhaustive small-scope enumeration, native go fuzzing in thorough tiers). Exit 0 = held; exit 1 + VIOLATION line = violation; exit 2 = infrastructure problem, nothing claimed. Known findings: /verif/known-findings.txt.",
    }
    json.dump(m, open(os.path.join(ROOT, "MANIFEST.json"), "w"), indent=1)
    print("MANIFEST.json: %d checks, %d not_applicable" % (len(checks), len(na)))

if __name__ == "__main__":
    main()
