#!/usr/bin/env python3
"""Prepare a round of independent seeded changes.
usage: seed_setup.py <prefix> [CXX ...]    e.g. seed_setup.py s3 C01 C02
For each property: a git worktree /tmp/<prefix>-CXX of /repo's HEAD and a directory
/tmp/<prefix>-CXX-out with PROPERTY.txt (statement, quantifier, and the changes already
archived for that property) and PROMPT.txt (tools/seed_prompt.txt with the paths filled in).
Nothing from /verif other than those two files is given to the sub-agent."""
import glob, json, os, subprocess, sys
prefix = sys.argv[1]
props = {}
for line in open("/verif/properties.jsonl"):
    d = json.loads(line)
    props[d["id"]] = d
ids = sys.argv[2:] or sorted(props)
tmpl = open("/verif/tools/seed_prompt.txt").read()
for pid in ids:
    d = props[pid]
    wt, out = "/tmp/%s-%s" % (prefix, pid), "/tmp/%s-%s-out" % (prefix, pid)
    subprocess.run(["git", "-C", "/repo", "worktree", "add", "-q", "--detach", wt, "HEAD"], check=True)
    os.makedirs(out, exist_ok=True)
    prev = []
    for m in sorted(glob.glob("/verif/seeded/%s-*/meta.json" % pid)):
        prev.append("- " + (json.load(open(m)).get("summary") or ""))
    with open(out + "/PROPERTY.txt", "w") as f:
        f.write("Property %s: %s\n\nStatement:\n%s\n\nQuantified over:\n%s\n\n" % (pid, d["title"], d["statement"], d["quantifier"]["text"]))
        f.write("Changes that other people have ALREADY made for this property (do NOT repeat these ideas or close variants of them; pick different mechanisms and, if possible, different clauses of the statement):\n" + "\n".join(prev) + "\n")
    with open(out + "/PROMPT.txt", "w") as f:
        f.write(tmpl.replace("WORKTREE", wt).replace("OUTDIR", out))
    print(pid, wt, out)
