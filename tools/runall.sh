#!/bin/sh
# Run every claimed check (quick by default) in parallel and summarise.
# Usage: tools/runall.sh [quick|thorough] [seed]
TIER=${1:-quick}; SEED=${2:-1}
cd /verif
IDS=$(python3 -c "import json; print(' '.join(c['property_id'] for c in json.load(open('MANIFEST.json'))['checks']))")
mkdir -p .work/runall
for P in $IDS; do
  ( VERIF_SEED=$SEED ./check $P --tier $TIER > .work/runall/$P.$TIER.log 2>&1; echo "$P exit=$?" >> .work/runall/summary.$TIER.$SEED ) &
  if [ "$TIER" = thorough ]; then wait; fi
done
wait
sort .work/runall/summary.$TIER.$SEED; rm -f .work/runall/summary.$TIER.$SEED
grep -h "seed=" .work/runall/*.$TIER.log | sed 's/discards=/disc=/'
