#!/usr/bin/env python3
"""Print the tables of DESIGN.md section 10.6 from /verif/seeded/*/meta.json.
usage: seed_table.py [suffixes]   e.g. seed_table.py AB   or   seed_table.py CD"""
import glob, json, os, sys

want = sys.argv[1] if len(sys.argv) > 1 else ""
metas = []
for p in sorted(glob.glob("/verif/seeded/*/meta.json")):
    m = json.load(open(p))
    if want and m["id"][-1] not in want:
        continue
    metas.append(m)

def clip(s, n=240):
    s = (s or "").replace("|", "\\|").replace("\n", " ")
    return s if len(s) <= n else s[:n]

caught = sum(1 for m in metas if m["first_run"] == "caught")
print("%d changes; first run: %d caught, %d missed\n" % (len(metas), caught, len(metas) - caught))
for m in metas:
    if m["first_run"] != "caught" and m.get("note"):
        note = m["note"]
        for pre in ("second round. ", "second round", "third round. ", "third round"):
            if note.startswith(pre):
                note = note[len(pre):]
        print("* **%s** - %s" % (m["id"], note[0].lower() + note[1:] if note else ""))
print()
print("| id | change | needs | first run | caught by (quick tier) |")
print("|---|---|---|---|---|")
for m in metas:
    print("| %s | %s | %s | %s | %s |" % (m["id"], clip(m["summary"]), clip(m["needs"], 200), m["first_run"], ", ".join(m["caught_by"])))
