#!/bin/sh
# Run jqawk's own test suite on a scratch copy of a tree (default /repo) with a
# freshly built ./jqawk binary (the suite's exe tests run ./jqawk), guard off.
# Usage: tools/repotest.sh [tree]
set -e
SRC=${1:-/repo}
export GOFLAGS=-mod=mod GOPROXY=off GOSUMDB=off GOTOOLCHAIN=local
D=$(mktemp -d /tmp/jqrt.XXXXXX)
trap 'rm -rf "$D"' EXIT
rsync -a --exclude .git --exclude /jqawk "$SRC"/ "$D"/
cd "$D"
go build -o jqawk . 
go test -count=1 -vet=off ./... 2>&1 | tail -15
