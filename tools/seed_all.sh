#!/bin/sh
# Re-run every archived seeded change against the check(s) recorded as catching it.
# Usage: tools/seed_all.sh [id-prefix]     (4 at a time)
cd /verif
run1() {
  d=$1; id=$(basename $d)
  props=$(python3 -c "import json; print(' '.join(json.load(open('$d/meta.json'))['caught_by']))")
  res=$(tools/seed_eval.sh $d $props 2>&1 | grep "check C\|bad seed\|does not apply" | tr '\n' ' ')
  echo "$id: $res"
}
n=0
for d in seeded/${1:-}*; do
  [ -f "$d/meta.json" ] || continue
  run1 $d &
  n=$((n+1)); [ $((n % 4)) -eq 0 ] && wait
done
wait
