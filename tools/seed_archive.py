#!/usr/bin/env python3
"""Archive an evaluated seeded change under /verif/seeded/<id>/.
usage: seed_archive.py <srcdir> <id> <property> <caught_by: comma list or -> <first_run: caught|missed> [note]"""
import json, os, shutil, sys
src, sid, prop, caught, first = sys.argv[1:6]
note = sys.argv[6] if len(sys.argv) > 6 else ""
dst = os.path.join("/verif/seeded", sid)
os.makedirs(dst, exist_ok=True)
for f in os.listdir(src):
    if f in ("patch.diff", "demo_test.go", "demo.sh"):
        shutil.copy(os.path.join(src, f), os.path.join(dst, f))
meta = json.load(open(os.path.join(src, "meta.json")))
out = {
    "id": sid,
    "property": prop,
    "summary": meta.get("summary"),
    "needs": meta.get("needs"),
    "files": meta.get("files"),
    "demo": meta.get("demo"),
    "author": "independent sub-agent that saw only the property text and its own worktree of /repo",
    "author_verification": meta.get("verified"),
    "confirmed": "tools/seed_eval.sh (scratch copy of /repo): demo passes on the clean tree; patch applies; the project's suite passes with the patch; the demo fails with the patch",
    "caught_by": [c for c in caught.split(",") if c and c != "-"],
    "first_run": first,
    "note": note,
    "how_to_rerun": "tools/seed_eval.sh /verif/seeded/%s %s" % (sid, prop),
}
json.dump(out, open(os.path.join(dst, "meta.json"), "w"), indent=1)
print("archived", dst)
